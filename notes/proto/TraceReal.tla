---------------------------- MODULE TraceReal ----------------------------
EXTENDS CircProto, Json, IOUtils
Rec == ndJsonDeserialize(IOEnv.TRACE)
VARIABLE l
Idx(t) == IF ToString(t) = "t1" THEN 1 ELSE 2
ToSet(s) == {s[i] : i \in DOMAIN s}
Match(r) ==
  /\ gep' = r.gep
  /\ \A o \in Obj : /\ life'[o] = r.obj[o].life
                    /\ (r.obj[o].life # "gone" =>
                          /\ cnt'[o].s = r.obj[o].s /\ cnt'[o].w = r.obj[o].w /\ cnt'[o].d = r.obj[o].d
                          /\ cnt'[o].k = r.obj[o].k /\ cnt'[o].e = r.obj[o].e)
  /\ \A t \in Thr : sn'[t] = ToSet(r.sn[Idx(t)])
TInit == InitChain /\ l = 0 /\ TLCSet(1, 0)
TNext == \/ /\ l < Len(Rec) /\ l' = l + 1
            /\ \/ Next /\ Match(Rec[l + 1])
               \/ UNCHANGED vars /\ Match(Rec[l + 1])
         \/ /\ l' = l /\ \E t \in Thr : ExitCol(t) \/ DecPin(t)
NotDone == l < Len(Rec)
Track == IF l > TLCGet(1) THEN TLCSet(1, l) ELSE TRUE
Report == PrintT(<<"MAXLINE", TLCGet(1), Len(Rec)>>)
TSpec == TInit /\ [][TNext]_<<vars, l>>
Accepted == (TLCGet("stats").diameter - 1 = Len(Rec)) \/ Print(<<"REJECTED after line", TLCGet("stats").diameter - 1>>, FALSE)
=============================================================================
