---------------------------- MODULE CircProto ----------------------------
EXTENDS Integers, FiniteSets, Sequences, TLC

CONSTANTS Thr, Obj, Cell, NULL, M, InitEp, MaxEp, MaxOps, MaxDepth,
          FixPin, FixInc, FixMark, FixStamp, OpsEnabled, Scen, ExpAge, CasAge

VARIABLES gep, mode, lep, cnt, life, lnk, tasks, pc, reg, rc, sn, wk, ws, nops

vars == <<gep, mode, lep, cnt, life, lnk, tasks, pc, reg, rc, sn, wk, ws, nops>>

Loc == Cell \cup Obj          \* link locations: root cells and the `next` field of each object
NullLink == [p |-> NULL, ts |-> 0]
Age(cur, x) == (cur + 2 - x) % M
Old(x, cur) == Age(cur, x) >= CasAge + 2
MaxStamp(cur, S) == CHOOSE x \in S : \A y \in S : Age(cur, x) <= Age(cur, y)
TaskKey == [k : {"destruct", "dealloc"}, o : Obj, ep : 0..(MaxEp+1)]
NoReg == [o |-> NULL, c |-> NULL, e |-> 0, d |-> 0, x |-> NULL, ne |-> 0, le |-> 0, cur |-> 0, tmp |-> FALSE, ret |-> "idle"]

Init ==
  /\ gep = InitEp
  /\ mode = [t \in Thr |-> "out"]
  /\ lep = [t \in Thr |-> 0]
  /\ cnt = [o \in Obj |-> [s |-> 0, w |-> 0, d |-> FALSE, k |-> FALSE, e |-> 0]]
  /\ life = [o \in Obj |-> "free"]
  /\ lnk = [l \in Loc |-> NullLink]
  /\ tasks = [k \in TaskKey |-> 0]
  /\ pc = [t \in Thr |-> "idle"]
  /\ reg = [t \in Thr |-> NoReg]
  /\ rc = [t \in Thr |-> [o \in Obj |-> 0]]
  /\ sn = [t \in Thr |-> {}]
  /\ wk = [t \in Thr |-> [o \in Obj |-> 0]]
  /\ ws = [t \in Thr |-> {}]
  /\ nops = [t \in Thr |-> 0]

Defer(kind, o) == tasks' = [tasks EXCEPT ![[k |-> kind, o |-> o, ep |-> gep]] = @ + 1]
Pinned(t) == mode[t] # "out"
CanOp(t, name) == pc[t] = "idle" /\ mode[t] \in {"out", "in"} /\ nops[t] < MaxOps /\ name \in OpsEnabled
Start(t) == nops' = [nops EXCEPT ![t] = @ + 1]
Goto(t, l) == pc' = [pc EXCEPT ![t] = l]
\* return from a sub-routine: go to reg[t].ret
Ret(t) == pc' = [pc EXCEPT ![t] = reg[t].ret]

------------------------------------------------------------------------
\* EBR (abstract)
Pin(t) == /\ CanOp(t, "pin") /\ mode[t] = "out"
          /\ mode' = [mode EXCEPT ![t] = "in"] /\ lep' = [lep EXCEPT ![t] = gep]
          /\ Start(t)
          /\ UNCHANGED <<gep, cnt, life, lnk, tasks, pc, reg, rc, sn, wk, ws>>
\* dropping the (outermost) guard: snapshots die, thread enters its collection phase still pinned
Unpin(t) == /\ pc[t] = "idle" /\ mode[t] = "in"
            /\ mode' = [mode EXCEPT ![t] = "col"]
            /\ sn' = [sn EXCEPT ![t] = {}] /\ ws' = [ws EXCEPT ![t] = {}]
            /\ UNCHANGED <<gep, lep, cnt, life, lnk, tasks, pc, reg, rc, wk, nops>>
Repin(t) == /\ pc[t] = "idle" /\ mode[t] = "col" /\ lep[t] # gep
            /\ lep' = [lep EXCEPT ![t] = gep]
            /\ UNCHANGED <<gep, mode, cnt, life, lnk, tasks, pc, reg, rc, sn, wk, ws, nops>>
ExitCol(t) == /\ pc[t] = "idle" /\ mode[t] = "col"
              /\ mode' = [mode EXCEPT ![t] = "out"]
              /\ UNCHANGED <<gep, lep, cnt, life, lnk, tasks, pc, reg, rc, sn, wk, ws, nops>>
Advance == /\ gep < MaxEp
           /\ \A t \in Thr : Pinned(t) => lep[t] = gep
           /\ gep' = gep + 1
           /\ UNCHANGED <<mode, lep, cnt, life, lnk, tasks, pc, reg, rc, sn, wk, ws, nops>>
\* a collecting thread pops a ripe task and starts executing it
Exec(t) == /\ pc[t] = "idle" /\ mode[t] = "col"
           /\ \E k \in TaskKey : /\ tasks[k] > 0 /\ gep - k.ep >= ExpAge
                /\ tasks' = [tasks EXCEPT ![k] = @ - 1]
                /\ reg' = [reg EXCEPT ![t] = [NoReg EXCEPT !.o = k.o, !.ret = "idle"]]
                /\ Goto(t, IF k.k = "destruct" THEN "td" ELSE "tdealloc")
           /\ UNCHANGED <<gep, mode, lep, cnt, life, lnk, rc, sn, wk, ws, nops>>
------------------------------------------------------------------------
\* sub-routines on the count word; target object in reg[t].o, continuation in reg[t].ret
U1 == UNCHANGED <<gep, life, lnk, rc, sn, wk, ws, nops>>

\* decrement_strong -----------------------------------------------------
DecPin(t) == /\ pc[t] = "dec_pin"
             /\ IF FixPin /\ mode[t] = "out"
                  THEN mode' = [mode EXCEPT ![t] = "tmp"] /\ lep' = [lep EXCEPT ![t] = gep]
                  ELSE UNCHANGED <<mode, lep>>
             /\ Goto(t, "dec_ep")
             /\ UNCHANGED <<gep, cnt, life, lnk, tasks, reg, rc, sn, wk, ws, nops>>
DecEp(t) == /\ pc[t] = "dec_ep"
            /\ reg' = [reg EXCEPT ![t].e = gep]
            /\ Goto(t, "dec_cas")
            /\ UNCHANGED <<gep, mode, lep, cnt, life, lnk, tasks, rc, sn, wk, ws, nops>>
\* reg.tmp = TRUE means: this decrement releases a handle owned by t (ghost rc bookkeeping)
DecCas(t) == /\ pc[t] = "dec_cas"
             /\ LET o == reg[t].o IN
                /\ cnt' = [cnt EXCEPT ![o].s = @ - 1, ![o].e = reg[t].e % M]
                /\ IF cnt[o].s = 1 THEN Defer("destruct", o) ELSE UNCHANGED tasks
                /\ rc' = IF reg[t].tmp THEN [rc EXCEPT ![t][o] = @ - 1] ELSE rc
             /\ IF mode[t] \in {"out", "tmp"}
                  THEN /\ mode' = [mode EXCEPT ![t] = "col"]
                       /\ lep' = IF mode[t] = "out" THEN [lep EXCEPT ![t] = gep] ELSE lep
                  ELSE UNCHANGED <<mode, lep>>
             /\ Ret(t)
             /\ UNCHANGED <<gep, life, lnk, reg, sn, wk, ws, nops>>

\* increment_strong -----------------------------------------------------
Inc1(t) == /\ pc[t] = "inc1"
           /\ LET o == reg[t].o IN
              IF FixInc
              THEN /\ cnt' = IF cnt[o].d THEN cnt
                             ELSE [cnt EXCEPT ![o].s = @ + (IF @ = 0 THEN 2 ELSE 1)]
                   /\ reg' = [reg EXCEPT ![t].tmp = ~cnt[o].d]
                   /\ Ret(t)
              ELSE /\ cnt' = [cnt EXCEPT ![o].s = @ + 1]
                   /\ reg' = [reg EXCEPT ![t].tmp = ~cnt[o].d]
                   /\ IF ~cnt[o].d /\ cnt[o].s = 0 THEN Goto(t, "inc2") ELSE Ret(t)
           /\ UNCHANGED <<gep, mode, lep, life, lnk, tasks, rc, sn, wk, ws, nops>>
Inc2(t) == /\ pc[t] = "inc2"
           /\ cnt' = [cnt EXCEPT ![reg[t].o].s = @ + 1]
           /\ Ret(t)
           /\ UNCHANGED <<gep, mode, lep, life, lnk, tasks, reg, rc, sn, wk, ws, nops>>
\* is_not_destructed ----------------------------------------------------
IsndEp(t) == /\ pc[t] = "isnd_ep"
             /\ reg' = [reg EXCEPT ![t].e = gep]
             /\ Goto(t, "isnd")
             /\ UNCHANGED <<gep, mode, lep, cnt, life, lnk, tasks, rc, sn, wk, ws, nops>>
Isnd(t) == /\ pc[t] = "isnd"
           /\ LET o == reg[t].o IN
              /\ cnt' = IF cnt[o].d THEN cnt
                        ELSE IF cnt[o].s = 0 THEN [cnt EXCEPT ![o].s = 1]
                        ELSE IF FixStamp THEN [cnt EXCEPT ![o].e = reg[t].e % M] ELSE cnt
              /\ reg' = [reg EXCEPT ![t].tmp = ~cnt[o].d]
           /\ Ret(t)
           /\ UNCHANGED <<gep, mode, lep, life, lnk, tasks, rc, sn, wk, ws, nops>>
\* increment_weak / decrement_weak --------------------------------------
IncW1(t) == /\ pc[t] = "incw1"
            /\ LET o == reg[t].o IN
               IF ~cnt[o].k
               THEN /\ cnt' = [cnt EXCEPT ![o].k = TRUE, ![o].w = @ + 1] /\ Ret(t)
               ELSE /\ cnt' = [cnt EXCEPT ![o].w = @ + 1]
                    /\ IF cnt[o].w = 0 THEN Goto(t, "incw2") ELSE Ret(t)
            /\ UNCHANGED <<gep, mode, lep, life, lnk, tasks, reg, rc, sn, wk, ws, nops>>
IncW2(t) == /\ pc[t] = "incw2"
            /\ cnt' = [cnt EXCEPT ![reg[t].o].w = @ + 1]
            /\ Ret(t)
            /\ UNCHANGED <<gep, mode, lep, life, lnk, tasks, reg, rc, sn, wk, ws, nops>>
DecW(t) == /\ pc[t] = "decw"
           /\ LET o == reg[t].o IN
              /\ cnt' = [cnt EXCEPT ![o].w = @ - 1]
              /\ IF cnt[o].w = 1 THEN Defer("dealloc", o) ELSE UNCHANGED tasks
              /\ wk' = IF reg[t].tmp THEN [wk EXCEPT ![t][o] = @ - 1] ELSE wk
           /\ IF mode[t] = "out"
                THEN mode' = [mode EXCEPT ![t] = "col"] /\ lep' = [lep EXCEPT ![t] = gep]
                ELSE UNCHANGED <<mode, lep>>
           /\ Ret(t)
           /\ UNCHANGED <<gep, life, lnk, reg, rc, sn, ws, nops>>
\* try_dealloc ----------------------------------------------------------
TDealloc(t) == /\ pc[t] = "tdealloc"
               /\ reg' = [reg EXCEPT ![t].tmp = (cnt[reg[t].o].w > 0)]
               /\ Goto(t, "tdealloc2")
               /\ UNCHANGED <<gep, mode, lep, cnt, life, lnk, tasks, rc, sn, wk, ws, nops>>
TDealloc2(t) == /\ pc[t] = "tdealloc2"
                /\ IF reg[t].tmp
                     THEN /\ reg' = [reg EXCEPT ![t].tmp = FALSE, ![t].ret = "idle"]
                          /\ Goto(t, "decw") /\ UNCHANGED life
                     ELSE /\ life' = [life EXCEPT ![reg[t].o] = "gone"]
                          /\ Goto(t, "idle") /\ UNCHANGED reg
                /\ UNCHANGED <<gep, mode, lep, cnt, lnk, tasks, rc, sn, wk, ws, nops>>
\* try_destruct ---------------------------------------------------------
TD(t) == /\ pc[t] = "td"
         /\ LET o == reg[t].o IN
            IF cnt[o].s > 0
            THEN /\ reg' = [reg EXCEPT ![t].tmp = FALSE, ![t].ret = "idle"]
                 /\ Goto(t, "dec_pin") /\ UNCHANGED cnt
            ELSE /\ cnt' = [cnt EXCEPT ![o].d = TRUE]
                 /\ reg' = [reg EXCEPT ![t].d = 0]
                 /\ Goto(t, "dg0")
         /\ UNCHANGED <<gep, mode, lep, life, lnk, tasks, rc, sn, wk, ws, nops>>
\* dispose_general_node --------------------------------------------------
DG0(t) == /\ pc[t] = "dg0"
          /\ \E rp \in BOOLEAN :
               lep' = IF rp THEN [lep EXCEPT ![t] = gep] ELSE lep
          /\ IF reg[t].d >= MaxDepth
               THEN Defer("destruct", reg[t].o) /\ Goto(t, "idle")
               ELSE UNCHANGED tasks /\ Goto(t, "dg1")
          /\ UNCHANGED <<gep, mode, cnt, life, lnk, reg, rc, sn, wk, ws, nops>>
DG1(t) == /\ pc[t] = "dg1"
          /\ reg' = [reg EXCEPT ![t].ne = cnt[reg[t].o].e]
          /\ Goto(t, "dg2")
          /\ UNCHANGED <<gep, mode, lep, cnt, life, lnk, tasks, rc, sn, wk, ws, nops>>
DG2(t) == /\ pc[t] = "dg2"
          /\ reg' = [reg EXCEPT ![t].cur = gep]
          /\ IF reg[t].d = 0 \/ Old(reg[t].ne, gep)
               THEN UNCHANGED tasks /\ Goto(t, IF FixMark /\ reg[t].d > 0 THEN "dgm" ELSE "dg3")
               ELSE Defer("destruct", reg[t].o) /\ Goto(t, "idle")
          /\ UNCHANGED <<gep, mode, lep, cnt, life, lnk, rc, sn, wk, ws, nops>>
DGM(t) == /\ pc[t] = "dgm"
          /\ LET o == reg[t].o IN
             IF cnt[o].s > 0
             THEN Defer("destruct", o) /\ Goto(t, "idle") /\ UNCHANGED cnt
             ELSE cnt' = [cnt EXCEPT ![o].d = TRUE] /\ Goto(t, "dg3") /\ UNCHANGED tasks
          /\ UNCHANGED <<gep, mode, lep, life, lnk, reg, rc, sn, wk, ws, nops>>
DG3(t) == /\ pc[t] = "dg3"
          /\ LET o == reg[t].o IN
             /\ life' = [life EXCEPT ![o] = "dead"]
             /\ reg' = [reg EXCEPT ![t].x = lnk[o].p, ![t].le = lnk[o].ts]
             /\ lnk' = [lnk EXCEPT ![o] = NullLink]
          /\ Goto(t, "dg4")
          /\ UNCHANGED <<gep, mode, lep, cnt, tasks, rc, sn, wk, ws, nops>>
DG4(t) == /\ pc[t] = "dg4"
          /\ reg' = [reg EXCEPT ![t].tmp = cnt[reg[t].o].k]
          /\ Goto(t, "dg5")
          /\ UNCHANGED <<gep, mode, lep, cnt, life, lnk, tasks, rc, sn, wk, ws, nops>>
DG5(t) == /\ pc[t] = "dg5"
          /\ LET o == reg[t].o IN
             IF reg[t].tmp
             THEN /\ cnt' = [cnt EXCEPT ![o].w = @ - 1]
                  /\ IF cnt[o].w = 1 THEN Defer("dealloc", o) ELSE UNCHANGED tasks
                  /\ UNCHANGED life
             ELSE /\ life' = [life EXCEPT ![o] = "gone"] /\ UNCHANGED <<cnt, tasks>>
          /\ Goto(t, "dg6")
          /\ UNCHANGED <<gep, mode, lep, lnk, reg, rc, sn, wk, ws, nops>>
DG6(t) == /\ pc[t] = "dg6"
          /\ LET c == reg[t].x IN
             IF c = NULL
             THEN Goto(t, "idle") /\ UNCHANGED <<cnt, reg>>
             ELSE /\ cnt' = [cnt EXCEPT ![c].s = @ - 1,
                                        ![c].e = MaxStamp(reg[t].cur, {reg[t].ne, reg[t].le, cnt[c].e})]
                  /\ IF cnt[c].s = 1
                       THEN reg' = [reg EXCEPT ![t].o = c, ![t].d = @ + 1] /\ Goto(t, "dg0")
                       ELSE UNCHANGED reg /\ Goto(t, "idle")
          /\ UNCHANGED <<gep, mode, lep, life, lnk, tasks, rc, sn, wk, ws, nops>>
------------------------------------------------------------------------
\* API operations (generic client)
Holds(t, o) == rc[t][o] > 0 \/ o \in sn[t]
CanUseLoc(t, l) == l \in Cell \/ (l \in Obj /\ Holds(t, l))
Call(t, o, entry, ret, own) ==
    /\ reg' = [reg EXCEPT ![t] = [NoReg EXCEPT !.o = o, !.ret = ret, !.tmp = own]]
    /\ Goto(t, entry)

New(t) == /\ CanOp(t, "new")
          /\ \E o \in Obj : /\ life[o] = "free"
               /\ \A o2 \in Obj : life[o2] = "free" => o2 >= o
               /\ life' = [life EXCEPT ![o] = "live"]
               /\ cnt' = [cnt EXCEPT ![o] = [s |-> 1, w |-> 1, d |-> FALSE, k |-> FALSE, e |-> 0]]
               /\ rc' = [rc EXCEPT ![t][o] = @ + 1]
          /\ Start(t)
          /\ UNCHANGED <<gep, mode, lep, lnk, tasks, pc, reg, sn, wk, ws>>
Load(t) == /\ CanOp(t, "load") /\ mode[t] = "in"
           /\ \E l \in Loc : /\ CanUseLoc(t, l) /\ lnk[l].p # NULL
                /\ sn' = [sn EXCEPT ![t] = @ \cup {lnk[l].p}]
           /\ Start(t)
           /\ UNCHANGED <<gep, mode, lep, cnt, life, lnk, tasks, pc, reg, rc, wk, ws>>
\* store / swap / compare_exchange: first read the epoch for the link timestamp
LinkOp(t, name, entry) ==
    /\ CanOp(t, name) /\ (name # "swap" => mode[t] = "in")
    /\ \E l \in Loc, v \in Obj \cup {NULL}, ex \in Obj \cup {NULL} :
         /\ CanUseLoc(t, l)
         /\ v # NULL => rc[t][v] > 0
         /\ IF name = "cas" THEN ex = NULL \/ ex \in sn[t] ELSE ex = NULL
         /\ reg' = [reg EXCEPT ![t] = [NoReg EXCEPT !.c = l, !.x = v, !.o = ex, !.e = gep]]
    /\ Goto(t, entry) /\ Start(t)
    /\ UNCHANGED <<gep, mode, lep, cnt, life, lnk, tasks, rc, sn, wk, ws>>
NewLink(t) == [p |-> reg[t].x, ts |-> IF reg[t].x = NULL THEN 0 ELSE reg[t].e % M]
StoreSwap(t) == /\ pc[t] = "st_swap"
                /\ LET l == reg[t].c  old == lnk[l].p  v == reg[t].x IN
                   /\ lnk' = [lnk EXCEPT ![l] = NewLink(t)]
                   /\ rc' = IF v # NULL THEN [rc EXCEPT ![t][v] = @ - 1] ELSE rc
                   /\ IF old = NULL THEN Goto(t, "idle") /\ UNCHANGED reg
                      ELSE Call(t, old, "dec_pin", "idle", FALSE)
                /\ UNCHANGED <<gep, mode, lep, cnt, life, tasks, sn, wk, ws, nops>>
SwapSwap(t) == /\ pc[t] = "sw_swap"
               /\ LET l == reg[t].c  old == lnk[l].p  v == reg[t].x IN
                  /\ lnk' = [lnk EXCEPT ![l] = NewLink(t)]
                  /\ rc' = [rc EXCEPT ![t] = [o \in Obj |-> rc[t][o] + (IF o = old THEN 1 ELSE 0) - (IF o = v THEN 1 ELSE 0)]]
               /\ Goto(t, "idle")
               /\ UNCHANGED <<gep, mode, lep, cnt, life, tasks, reg, sn, wk, ws, nops>>
CasCas(t) == /\ pc[t] = "cas_cas"
             /\ LET l == reg[t].c  cur == lnk[l].p  v == reg[t].x  ex == reg[t].o IN
                IF cur = ex
                THEN /\ lnk' = [lnk EXCEPT ![l] = NewLink(t)]
                     /\ rc' = [rc EXCEPT ![t] = [o \in Obj |-> rc[t][o] + (IF o = ex THEN 1 ELSE 0) - (IF o = v THEN 1 ELSE 0)]]
                     /\ UNCHANGED sn
                ELSE /\ sn' = [sn EXCEPT ![t] = @ \cup ({cur} \ {NULL})]
                     /\ UNCHANGED <<lnk, rc>>
             /\ Goto(t, "idle")
             /\ UNCHANGED <<gep, mode, lep, cnt, life, tasks, reg, wk, ws, nops>>
Clone(t) == /\ CanOp(t, "clone")
            /\ \E o \in Obj : rc[t][o] > 0 /\ Call(t, o, "inc1", "rc_fin", FALSE)
            /\ Start(t) /\ UNCHANGED <<gep, mode, lep, cnt, life, lnk, tasks, rc, sn, wk, ws>>
Counted(t) == /\ CanOp(t, "counted")
              /\ \E o \in sn[t] : Call(t, o, "inc1", "rc_fin", FALSE)
              /\ Start(t) /\ UNCHANGED <<gep, mode, lep, cnt, life, lnk, tasks, rc, sn, wk, ws>>
Upgrade(t) == /\ CanOp(t, "upgrade")
              /\ \E o \in Obj : wk[t][o] > 0 /\ Call(t, o, "inc1", "rc_fin", FALSE)
              /\ Start(t) /\ UNCHANGED <<gep, mode, lep, cnt, life, lnk, tasks, rc, sn, wk, ws>>
RcFin(t) == /\ pc[t] = "rc_fin"
            /\ rc' = IF reg[t].tmp THEN [rc EXCEPT ![t][reg[t].o] = @ + 1] ELSE rc
            /\ Goto(t, "idle")
            /\ UNCHANGED <<gep, mode, lep, cnt, life, lnk, tasks, reg, sn, wk, ws, nops>>
Drop(t) == /\ CanOp(t, "drop")
           /\ \E o \in Obj : rc[t][o] > 0 /\ Call(t, o, "dec_pin", "idle", TRUE)
           /\ Start(t) /\ UNCHANGED <<gep, mode, lep, cnt, life, lnk, tasks, rc, sn, wk, ws>>
Snap(t) == /\ CanOp(t, "snap") /\ mode[t] = "in"
           /\ \E o \in Obj : rc[t][o] > 0 /\ o \notin sn[t] /\ sn' = [sn EXCEPT ![t] = @ \cup {o}]
           /\ Start(t) /\ UNCHANGED <<gep, mode, lep, cnt, life, lnk, tasks, pc, reg, rc, wk, ws>>
Downgrade(t) == /\ CanOp(t, "downgrade")
                /\ \E o \in Obj : rc[t][o] > 0 /\ Call(t, o, "incw1", "wk_fin", FALSE)
                /\ Start(t) /\ UNCHANGED <<gep, mode, lep, cnt, life, lnk, tasks, rc, sn, wk, ws>>
WCounted(t) == /\ CanOp(t, "wcounted")
               /\ \E o \in ws[t] : Call(t, o, "incw1", "wk_fin", FALSE)
               /\ Start(t) /\ UNCHANGED <<gep, mode, lep, cnt, life, lnk, tasks, rc, sn, wk, ws>>
WkFin(t) == /\ pc[t] = "wk_fin"
            /\ wk' = [wk EXCEPT ![t][reg[t].o] = @ + 1]
            /\ Goto(t, "idle")
            /\ UNCHANGED <<gep, mode, lep, cnt, life, lnk, tasks, reg, rc, sn, ws, nops>>
WSnap(t) == /\ CanOp(t, "wsnap") /\ mode[t] = "in"
            /\ \E o \in Obj : (wk[t][o] > 0 \/ o \in sn[t]) /\ o \notin ws[t]
                 /\ ws' = [ws EXCEPT ![t] = @ \cup {o}]
            /\ Start(t) /\ UNCHANGED <<gep, mode, lep, cnt, life, lnk, tasks, pc, reg, rc, sn, wk>>
WSUpgrade(t) == /\ CanOp(t, "wsupgrade")
                /\ \E o \in ws[t] : Call(t, o, IF FixStamp THEN "isnd_ep" ELSE "isnd", "sn_fin", FALSE)
                /\ Start(t) /\ UNCHANGED <<gep, mode, lep, cnt, life, lnk, tasks, rc, sn, wk, ws>>
SnFin(t) == /\ pc[t] = "sn_fin"
            /\ sn' = IF reg[t].tmp THEN [sn EXCEPT ![t] = @ \cup {reg[t].o}] ELSE sn
            /\ Goto(t, "idle")
            /\ UNCHANGED <<gep, mode, lep, cnt, life, lnk, tasks, reg, rc, wk, ws, nops>>
DropWeak(t) == /\ CanOp(t, "dropweak")
               /\ \E o \in Obj : wk[t][o] > 0 /\ Call(t, o, "decw", "idle", TRUE)
               /\ Start(t) /\ UNCHANGED <<gep, mode, lep, cnt, life, lnk, tasks, rc, sn, wk, ws>>

Next == \/ Advance
        \/ \E t \in Thr :
             \/ Pin(t) \/ Unpin(t) \/ Repin(t) \/ ExitCol(t) \/ Exec(t)
             \/ DecPin(t) \/ DecEp(t) \/ DecCas(t) \/ Inc1(t) \/ Inc2(t) \/ IsndEp(t) \/ Isnd(t)
             \/ IncW1(t) \/ IncW2(t) \/ DecW(t) \/ TDealloc(t) \/ TDealloc2(t) \/ TD(t)
             \/ DG0(t) \/ DG1(t) \/ DG2(t) \/ DGM(t) \/ DG3(t) \/ DG4(t) \/ DG5(t) \/ DG6(t)
             \/ New(t) \/ Load(t)
             \/ LinkOp(t, "store", "st_swap") \/ LinkOp(t, "swap", "sw_swap") \/ LinkOp(t, "cas", "cas_cas")
             \/ StoreSwap(t) \/ SwapSwap(t) \/ CasCas(t)
             \/ Clone(t) \/ Counted(t) \/ Upgrade(t) \/ RcFin(t) \/ Drop(t) \/ Snap(t)
             \/ Downgrade(t) \/ WCounted(t) \/ WkFin(t) \/ WSnap(t) \/ WSUpgrade(t) \/ SnFin(t) \/ DropWeak(t)
\* seeded heap: object 1 = P with next -> 2 = X; cell c -> X; thread a holds Rc(X), thread b holds Rc(P)
\* and a Weak(X) when Scen = "chainw"
InitChain ==
  \E a, b \in Thr, c \in Cell : a # b /\
  /\ gep = InitEp
  /\ mode = [t \in Thr |-> "out"]
  /\ lep = [t \in Thr |-> 0]
  /\ cnt = [o \in Obj |-> IF o = 1 THEN [s |-> 1, w |-> 1, d |-> FALSE, k |-> FALSE, e |-> 0]
                          ELSE IF o = 2 THEN [s |-> IF Scen = "chainw" THEN 1 ELSE 3, w |-> IF Scen = "chainw" THEN 2 ELSE 1, d |-> FALSE, k |-> (Scen = "chainw"), e |-> 0]
                          ELSE [s |-> 0, w |-> 0, d |-> FALSE, k |-> FALSE, e |-> 0]]
  /\ life = [o \in Obj |-> IF o \in {1, 2} THEN "live" ELSE "free"]
  /\ lnk = [l \in Loc |-> IF l = 1 THEN [p |-> 2, ts |-> 0]
                          ELSE IF l = c /\ Scen = "chain" THEN [p |-> 2, ts |-> 0] ELSE NullLink]
  /\ tasks = [k \in TaskKey |-> 0]
  /\ pc = [t \in Thr |-> "idle"]
  /\ reg = [t \in Thr |-> NoReg]
  /\ rc = [t \in Thr |-> [o \in Obj |-> IF t = a /\ o = 2 /\ Scen = "chain" THEN 1 ELSE IF t = b /\ o = 1 THEN 1 ELSE 0]]
  /\ sn = [t \in Thr |-> {}]
  /\ wk = [t \in Thr |-> [o \in Obj |-> IF t = a /\ o = 2 /\ Scen = "chainw" THEN 1 ELSE 0]]
  /\ ws = [t \in Thr |-> {}]
  /\ nops = [t \in Thr |-> 0]
Spec == (IF Scen = "empty" THEN Init ELSE InitChain) /\ [][Next]_vars

------------------------------------------------------------------------
\* properties
InFlightOwner(t, o) ==   \* an Rc moved into an in-progress store/swap/cas, or a result not yet booked
    \/ pc[t] \in {"st_swap", "sw_swap", "cas_cas"} /\ reg[t].x = o
    \/ pc[t] = "rc_fin" /\ reg[t].tmp /\ reg[t].o = o
C01 == \A t \in Thr, o \in Obj : (rc[t][o] > 0 \/ InFlightOwner(t, o)) => life[o] = "live"
C01Link == \A l \in Loc : ((l \in Cell \/ life[l] = "live") /\ lnk[l].p # NULL) => life[lnk[l].p] = "live"
C02 == \A t \in Thr : \A o \in sn[t] : life[o] = "live"
C03 == \A t \in Thr, o \in Obj : (wk[t][o] > 0 \/ o \in ws[t]) => life[o] \in {"live", "dead"}
NoUnderflow == \A t \in Thr : /\ pc[t] = "dec_cas" => cnt[reg[t].o].s >= 1
                              /\ pc[t] = "dg6" /\ reg[t].x # NULL => cnt[reg[t].x].s >= 1
                              /\ pc[t] = "decw" => cnt[reg[t].o].w >= 1
Once == \A t \in Thr : /\ pc[t] = "dg3" => life[reg[t].o] = "live"
                       /\ (pc[t] = "dg5" \/ pc[t] = "tdealloc2") => life[reg[t].o] = "dead"
EpochBound == \A t \in Thr : Pinned(t) => gep \in {lep[t], lep[t] + 1}
DecPcs == {"dec_pin", "dec_ep", "dec_cas"}
Card(S) == Cardinality(S)
RECURSIVE SumRc(_, _)
SumRc(S, o) == IF S = {} THEN 0 ELSE LET t == CHOOSE x \in S : TRUE IN rc[t][o] + SumRc(S \ {t}, o)
LinksTo(o) == Card({l \in Loc : (l \in Cell \/ life[l] = "live") /\ lnk[l].p = o})
InfApi(o) == Card({t \in Thr : pc[t] \in DecPcs /\ reg[t].o = o /\ ~reg[t].tmp /\ mode[t] # "col"})
InfInc(o) == Card({t \in Thr : pc[t] = "rc_fin" /\ reg[t].tmp /\ reg[t].o = o})
InfDg(o) == Card({t \in Thr : pc[t] \in {"dg4", "dg5", "dg6"} /\ reg[t].x = o})
RealRefs(o) == SumRc(Thr, o) + LinksTo(o) + InfApi(o) + InfInc(o) + InfDg(o)
Tok(o) == cnt[o].s - RealRefs(o)
RECURSIVE SumTasks(_, _)
SumTasks(K, o) == IF K = {} THEN 0 ELSE LET k == CHOOSE x \in K : TRUE IN (IF k.k = "destruct" /\ k.o = o THEN tasks[k] ELSE 0) + SumTasks(K \ {k}, o)
RespThr(o) == Card({t \in Thr : (pc[t] = "td" /\ reg[t].o = o)
                                  \/ (pc[t] \in DecPcs /\ reg[t].o = o /\ mode[t] = "col" /\ ~reg[t].tmp)
                                  \/ (pc[t] \in {"dg0", "dg1", "dg2", "dgm"} /\ reg[t].o = o /\ reg[t].d > 0)})
DestructKeys(o) == {[k |-> "destruct", o |-> o, ep |-> e] : e \in 0..(MaxEp+1)}
Resp(o) == Card({k \in DestructKeys(o) : tasks[k] > 0}) + RespThr(o)
TaskOnce == \A k \in TaskKey : tasks[k] <= 1
WF == \A o \in Obj : (life[o] = "live" /\ ~cnt[o].d) =>
        /\ Tok(o) \in {0, 1}
        /\ Resp(o) = (IF cnt[o].s = 0 \/ Tok(o) = 1 THEN 1 ELSE 0)
Quiescent == \A t \in Thr : pc[t] = "idle" /\ mode[t] = "out"
NoTasks == \A k \in TaskKey : tasks[k] = 0
NoOwner(o) == \A t \in Thr : rc[t][o] = 0
Linked(o) == \E l \in Loc : (l \in Cell \/ life[l] = "live") /\ lnk[l].p = o
WeaklyHeld(o) == \E t \in Thr : wk[t][o] > 0
Leak == (Quiescent /\ NoTasks) =>
          \A o \in Obj : (life[o] \in {"live", "dead"} /\ NoOwner(o) /\ ~Linked(o)) => (life[o] = "dead" /\ WeaklyHeld(o))
=============================================================================
