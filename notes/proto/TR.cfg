SPECIFICATION TSpec
CONSTANTS
  Thr = {t1, t2}
  Obj = {1, 2}
  Cell = {c1}
  NULL = 0
  M = 16
  InitEp = 6
  MaxEp = 12
  MaxOps = 6
  MaxDepth = 3
  FixPin = FALSE
  FixInc = FALSE
  FixMark = FALSE
  FixStamp = FALSE
  OpsEnabled = {"load","store","drop","pin"}
  Scen = "chain"
  ExpAge = 3
  CasAge = 3
INVARIANTS Track C01 C02 C03 Once NotDone
POSTCONDITION Report
CHECK_DEADLOCK FALSE
