// End-to-end feasibility prototype: cooperative scheduler + recorder on the real crate.
use circ::verif::{self, site};
use circ::*;
use std::cell::RefCell;
use std::collections::BTreeMap;
use std::sync::atomic::Ordering::SeqCst;
use std::sync::mpsc::{channel, Receiver, Sender};
use std::sync::{Mutex, OnceLock};

struct Node { id: usize, next: AtomicRc<Node> }
unsafe impl RcObject for Node { fn pop_edges(&mut self, out: &mut Vec<Rc<Self>>) { life_ev(self.id, "popped"); out.push(self.next.take()); } }
impl Drop for Node { fn drop(&mut self) { life_ev(self.id, "dead"); } }

// ---- global recorder state ----
#[derive(Default)]
struct World { addr2id: BTreeMap<usize, usize>, id2addr: BTreeMap<usize, usize>, life: BTreeMap<usize, String>, evs: Vec<String> }
static WORLD: OnceLock<Mutex<World>> = OnceLock::new();
fn world() -> std::sync::MutexGuard<'static, World> { WORLD.get_or_init(|| Mutex::new(World::default())).lock().unwrap() }
fn life_ev(id: usize, what: &str) { let mut w = world(); w.life.insert(id, what.to_string()); w.evs.push(format!("{}:{}", what, id)); }
fn ev_hook(kind: u32, addr: usize, a: u64, b: u64) {
    let mut w = world();
    let id = w.addr2id.get(&addr).copied().unwrap_or(0);
    match kind {
        site::EV_DEALLOC => { if id != 0 { w.life.insert(id, "gone".into()); w.evs.push(format!("gone:{}", id)); } }
        site::EV_DEFER_DESTRUCT => { if id == 0 { eprintln!("unknown addr {:#x}; known {:x?}", addr, w.addr2id.keys().collect::<Vec<_>>()); } w.evs.push(format!("defer_destruct:{}", id)); drop(w); verif::seal_local_bag(); }
        site::EV_DG_DECIDE => { w.evs.push(format!("decide:{}:depth{}:ne{}:cur{}:{}", id, a >> 32, a & 0xffff, b >> 1, if b & 1 == 1 { "imm" } else { "defer" })); }
        _ => {}
    }
}

// ---- worker <-> controller protocol ----
enum Evt { AtSite(u32), Done }
enum Cmd { Go, Op(Op), Quit }
#[derive(Clone, Debug)]
enum Loc { Cell(usize), Next(usize) }
#[derive(Clone, Debug)]
enum Op { Drop(usize), Pin, Unpin, Load(Loc), Store(Loc, Option<usize>), Collect, Give(usize) }
thread_local! { static LINK: RefCell<Option<(Sender<Evt>, Receiver<Cmd>)>> = const { RefCell::new(None) }; }
fn pre_hook(s: u32) {
    LINK.with(|l| { let l = l.borrow(); let (tx, rx) = l.as_ref().unwrap(); tx.send(Evt::AtSite(s)).unwrap();
        match rx.recv().unwrap() { Cmd::Go => {}, _ => panic!("unexpected cmd while at site") } });
}
static CELLS: OnceLock<Vec<AtomicRc<Node>>> = OnceLock::new();
static MAIL: Mutex<Vec<(usize, usize, usize)>> = Mutex::new(Vec::new()); // (to thread, obj id, Rc moved as raw box ptr)

struct Worker { tx: Sender<Cmd>, rx: Receiver<Evt>, at: Option<u32>, busy: bool }
fn spawn_worker(t: usize) -> Worker {
    let (ctx, wrx) = channel::<Cmd>(); let (wtx, crx) = channel::<Evt>();
    std::thread::spawn(move || {
        drop(cs()); // register participant
        LINK.with(|l| *l.borrow_mut() = Some((wtx.clone(), wrx)));
        verif::set_skip_advance(true);
        let mut rcs: Vec<(usize, Rc<Node>)> = Vec::new();
        let mut guard: Option<Guard> = None;
        loop {
            let cmd = LINK.with(|l| l.borrow().as_ref().unwrap().1.recv().unwrap());
            match cmd {
                Cmd::Quit => break,
                Cmd::Go => panic!("Go while idle"),
                Cmd::Op(op) => {
                    verif::set_managed(true);
                    match op {
                        Op::Give(id) => { let mut m = MAIL.lock().unwrap(); let i = m.iter().position(|x| x.0 == t && x.1 == id).unwrap(); let (_, _, p) = m.remove(i);
                            rcs.push((id, *unsafe { Box::from_raw(p as *mut Rc<Node>) })); }
                        Op::Drop(id) => { let i = rcs.iter().position(|x| x.0 == id).unwrap(); let (_, rc) = rcs.remove(i); drop(rc); }
                        Op::Pin => { guard = Some(cs()); }
                        Op::Unpin => { guard = None; }
                        Op::Collect => { verif::collect_now(); }
                        Op::Load(loc) => { let g = guard.as_ref().unwrap();
                            let s = match loc { Loc::Cell(c) => CELLS.get().unwrap()[c].load(SeqCst, g),
                                Loc::Next(o) => rcs.iter().find(|x| x.0 == o).unwrap().1.as_ref().unwrap().next.load(SeqCst, g) };
                            let _ = s.is_null(); }
                        Op::Store(loc, v) => { let g = guard.as_ref().unwrap();
                            let rc = match v { None => Rc::null(), Some(id) => { let i = rcs.iter().position(|x| x.0 == id).unwrap(); rcs.remove(i).1 } };
                            match loc { Loc::Cell(c) => CELLS.get().unwrap()[c].store(rc, SeqCst, g),
                                Loc::Next(o) => rcs.iter().find(|x| x.0 == o).unwrap().1.as_ref().unwrap().next.store(rc, SeqCst, g) } }
                    }
                    verif::set_managed(false);
                    wtx.send(Evt::Done).unwrap();
                }
            }
        }
    });
    Worker { tx: ctx, rx: crx, at: None, busy: false }
}

struct Ctl { ws: Vec<Worker>, lines: Vec<String>, modes: Vec<&'static str>, sn: Vec<Vec<usize>> }
impl Ctl {
    fn wait(&mut self, t: usize) { match self.ws[t].rx.recv().unwrap() { Evt::AtSite(s) => { self.ws[t].at = Some(s); } Evt::Done => { self.ws[t].at = None; self.ws[t].busy = false; } } }
    fn start(&mut self, t: usize, op: Op) { assert!(!self.ws[t].busy); self.ws[t].busy = true; self.ws[t].tx.send(Cmd::Op(op.clone())).unwrap(); self.wait(t); self.record(t, &format!("start {:?}", op)); }
    fn step(&mut self, t: usize) { if !self.ws[t].busy { return; } let from = self.ws[t].at; self.ws[t].tx.send(Cmd::Go).unwrap(); self.wait(t); self.record(t, &format!("step from {:?}", from)); }
    /// run thread t until it has *performed* the access guarded by `target` (or finished)
    fn run_through(&mut self, t: usize, target: u32) { let mut n = 0; while self.ws[t].busy && self.ws[t].at != Some(target) { self.step(t); n += 1; assert!(n < 1000); } self.step(t); }
    fn finish(&mut self, t: usize) { let mut n = 0; while self.ws[t].busy { self.step(t); n += 1; assert!(n < 100000); } }
    fn advance(&mut self) { verif::try_advance(); self.record(99, "advance"); }
    fn record(&mut self, t: usize, what: &str) {
        let w = world();
        let mut objs = Vec::new();
        for (id, addr) in w.id2addr.iter() {
            let life = w.life.get(id).cloned().unwrap_or("live".into());
            let (s, wk, d, k, e) = if life == "gone" { (0, 0, true, false, 0) } else { verif::decode_state(unsafe { verif::peek_state::<Node>(*addr) }) };
            objs.push(format!("{{\"id\":{},\"s\":{},\"w\":{},\"d\":{},\"k\":{},\"e\":{},\"life\":\"{}\"}}", id, s, wk, d, k, e, if life == "popped" { "live".to_string() } else { life }));
        }
        let sn: Vec<String> = self.sn.iter().map(|v| format!("{:?}", v)).collect();
        self.lines.push(format!("{{\"i\":{},\"t\":{},\"what\":\"{}\",\"gep\":{},\"obj\":[{}],\"sn\":[{}],\"evs\":{:?}}}", self.lines.len() + 1, t, what, verif::global_epoch(), objs.join(","), sn.join(","), w.evs));
    }
}

fn main() {
    verif::set_hooks(pre_hook, ev_hook);
    let adv = || verif::try_advance();
    while verif::global_epoch() % 16 != 6 { adv(); }
    // seeded heap of the "chain" scenario: P(1) -> X(2); cell0 -> X; t0 holds Rc(X); t1 holds Rc(P)
    let _ = CELLS.set(vec![AtomicRc::null()]);
    let x = Rc::new(Node { id: 2, next: AtomicRc::null() });
    let p = Rc::new(Node { id: 1, next: AtomicRc::from(x.clone()) });
    { let mut w = world(); for (id, rc) in [(1usize, &p), (2usize, &x)] { let a = verif::rc_addr(rc); w.addr2id.insert(a, id); w.id2addr.insert(id, a); } }
    { let g = unsafe { std::mem::transmute::<Guard, Guard>(cs()) }; let c = &CELLS.get().unwrap()[0];
      // initial link without timestamp, as in the seed (ts = 0): swap in via From-like path
      let old = c.swap(x.clone(), SeqCst); drop(old); drop(g); }
    let mut ctl = Ctl { ws: vec![spawn_worker(0), spawn_worker(1)], lines: vec![], modes: vec!["out", "out"], sn: vec![vec![], vec![]] };
    MAIL.lock().unwrap().push((0, 2, Box::into_raw(Box::new(x)) as usize));
    MAIL.lock().unwrap().push((1, 1, Box::into_raw(Box::new(p)) as usize));
    ctl.start(0, Op::Give(2)); ctl.finish(0); ctl.start(1, Op::Give(1)); ctl.finish(1);
    let e0 = verif::global_epoch();
    println!("init epoch {}", e0);
    // ---- schedule derived from TLC's 33-step counterexample (threads renamed t1->0, t2->1) ----
    ctl.start(0, Op::Drop(2));                    // Drop(t1): blocked before reading the epoch
    ctl.run_through(0, site::U_DEC_EPOCH);        // DecEp(t1): epoch read (unpinned), now stalls
    ctl.start(1, Op::Drop(1));                    // Drop(t2) of P
    ctl.run_through(1, site::U_DEC_EPOCH);        // DecEp(t2)
    ctl.run_through(1, site::U_DEC_CAS); ctl.finish(1); // DecCas(t2): P 1->0, try_destruct deferred+sealed
    ctl.advance(); ctl.advance(); ctl.advance();  // three epoch advances while t1 is stalled
    ctl.start(1, Op::Pin); ctl.finish(1);         // Pin(t2)
    ctl.start(1, Op::Load(Loc::Cell(0))); ctl.sn[1].push(2); ctl.finish(1); // Load(t2): Snapshot(X)
    ctl.start(1, Op::Store(Loc::Cell(0), None)); ctl.finish(1); // store null: X 3->2 with a fresh stamp
    ctl.run_through(0, site::U_DEC_CAS); ctl.finish(0);        // DecCas(t1): X 2->1, stale stamp overwrites
    ctl.start(0, Op::Collect); ctl.finish(0);     // Exec(t1): P destructed, cascade reaches X
    let xlife = world().life.get(&2).cloned().unwrap_or("live".into());
    println!("t2 still pinned with Snapshot(X); life[X] = {}  => {}", xlife, if xlife != "live" { "C02 VIOLATED on the real code" } else { "no violation" });
    ctl.start(1, Op::Unpin); ctl.finish(1);
    std::fs::write("trace.ndjson", ctl.lines.join("\n") + "\n").unwrap();
    println!("{} trace lines, init epoch {}", ctl.lines.len(), e0);
    for w in &ctl.ws { let _ = w.tx.send(Cmd::Quit); }
}
