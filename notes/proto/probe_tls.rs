use circ::*;
use std::sync::atomic::{AtomicUsize, Ordering::*};
use std::cell::RefCell;
static DROPS: AtomicUsize = AtomicUsize::new(0);
struct Node { next: AtomicRc<Node> }
impl Drop for Node { fn drop(&mut self) { DROPS.fetch_add(1, SeqCst); } }
unsafe impl RcObject for Node { fn pop_edges(&mut self, out: &mut Vec<Rc<Self>>) { out.push(self.next.take()); } }
fn adv() { let g = cs(); g.flush(); drop(g); }
struct Holder { rc: RefCell<Option<Rc<Node>>>, mode: usize }
impl Drop for Holder { fn drop(&mut self) {
    // runs as a TLS destructor, possibly after circ's HANDLE has been destroyed
    match self.mode {
        0 => { drop(self.rc.borrow_mut().take()); }
        1 => { let g = cs(); let r = self.rc.borrow_mut().take().unwrap(); r.finalize(&g); g.flush(); }
        2 => { let g = cs(); let g2 = cs(); drop(self.rc.borrow_mut().take()); drop(g); let mut g2 = g2; g2.reactivate(); }
        _ => { let a = AtomicRc::from(self.rc.borrow_mut().take().unwrap()); let g = cs(); let s = a.load(SeqCst, &g); let _ = s.counted(); drop(a); }
    }
} }
thread_local! { static FOO: Holder = panic!("init via with"); }
fn main() {
    let only: Option<usize> = std::env::args().nth(1).map(|x| x.parse().unwrap());
    for mode in 0..4usize { for order in 0..2 { if let Some(o) = only { if o != mode * 2 + order { continue; } }
        let before = DROPS.load(SeqCst);
        let h = std::thread::spawn(move || {
            thread_local! { static H: RefCell<Option<Holder>> = const { RefCell::new(None) }; }
            if order == 0 {
                // Holder registered first, HANDLE second => HANDLE destroyed first at exit
                H.with(|h| *h.borrow_mut() = Some(Holder { rc: RefCell::new(None), mode }));
                let rc = Rc::new(Node { next: AtomicRc::null() });
                drop(cs()); // HANDLE registered after H => destroyed before H
                H.with(|h| *h.borrow().as_ref().unwrap().rc.borrow_mut() = Some(rc));
            } else {
                let rc = Rc::new(Node { next: AtomicRc::null() });
                drop(cs());
                H.with(|h| *h.borrow_mut() = Some(Holder { rc: RefCell::new(Some(rc)), mode }));
            }
        });
        let r = h.join();
        for _ in 0..8 { adv(); }
        println!("mode {} order {} : thread {} ; node destructed afterwards = {}", mode, order, if r.is_ok() { "exited normally" } else { "PANICKED" }, DROPS.load(SeqCst) - before);
    } }
}
