SPECIFICATION Spec
CONSTANTS
  P = {p1, p2}
  NT = 2
  Cap = 1
  MaxEp = 4
  Expire = 3
  FixW = FALSE
  Revalidate = TRUE
  MaxCS = 4
  Seed = "intask"
  MaxFlush = 3
  Nester = {p1}
INVARIANTS C13 EpochBound Once
PROPERTIES Mono
CHECK_DEADLOCK FALSE
