---------------------------- MODULE TraceProto ----------------------------
EXTENDS CircProto, Json, IOUtils
Rec == ndJsonDeserialize(IOEnv.TRACE)
VARIABLE l
Match(r) ==
  /\ gep' = r.gep
  /\ \A t \in Thr : /\ pc'[t] = r.pc[ToString(t)] /\ mode'[t] = r.mode[ToString(t)] /\ lep'[t] = r.lep[ToString(t)]
                    /\ \A o \in Obj : rc'[t][o] = r.rc[ToString(t)][o] /\ wk'[t][o] = r.wk[ToString(t)][o]
  /\ \A o \in Obj : cnt'[o] = r.cnt[o] /\ life'[o] = r.life[o]
TInit == Init /\ l = 1
TNext == /\ l < Len(Rec) /\ l' = l + 1 /\ Next /\ Match(Rec[l + 1])
TSpec == TInit /\ [][TNext]_<<vars, l>>
Accepted == (TLCGet("stats").diameter = Len(Rec)) \/ Print(<<"REJECTED at line", TLCGet("stats").diameter + 1>>, FALSE)
=============================================================================
