SPECIFICATION Spec
CONSTANTS
  P = {p1, p2}
  NT = 1
  Cap = 1
  MaxEp = 3
  Expire = 3
  FixW = TRUE
  Revalidate = FALSE
  MaxCS = 3
  Seed = "none"
  MaxFlush = 2
  Nester = {}
INVARIANTS C13 EpochBound Once
PROPERTIES Mono
CHECK_DEADLOCK FALSE
