use circ::*;
use std::sync::atomic::{AtomicUsize, Ordering::*};
use std::sync::mpsc::channel;
static DROPS: AtomicUsize = AtomicUsize::new(0);
struct Node { id: usize, next: AtomicRc<Node> }
impl Drop for Node { fn drop(&mut self) { DROPS.fetch_add(1, SeqCst); } }
unsafe impl RcObject for Node { fn pop_edges(&mut self, out: &mut Vec<Rc<Self>>) { out.push(self.next.take()); } }
fn adv() { let g = cs(); g.flush(); drop(g); }
fn main() {
    // (a)
    let rc = Rc::new(Node{id:1,next:AtomicRc::null()});
    let ws: [Weak<Node>; 3] = rc.weak_many();
    println!("(a) weak_many nulls: {:?}  ptr_eq receiver: {:?}", ws.iter().map(|w| w.is_null()).collect::<Vec<_>>(), ws.iter().map(|w| w.ptr_eq(&rc.downgrade())).collect::<Vec<_>>());
    drop(ws); drop(rc);
    for _ in 0..(16 + 14 - __epoch() % 16) { adv(); }
    // (b)
    let child = Rc::new(Node{id:3,next:AtomicRc::null()});
    let w = child.downgrade();
    let parent = Rc::new(Node{id:2,next:AtomicRc::null()});
    { let g = cs(); parent.as_ref().unwrap().next.store(child, SeqCst, &g); }
    for _ in 0..5 { adv(); }
    let d0 = DROPS.load(SeqCst);
    drop(parent);
    for _ in 0..3 { adv(); }
    println!("(b) drops after 3 advances = {} (2 = cascade was immediate) ; upgrade is_some = {}", DROPS.load(SeqCst)-d0, w.upgrade().is_some());
    drop(w);
    // (f)
    for _ in 0..(16 + 14 - __epoch() % 16) { adv(); }
    let child = Rc::new(Node{id:13,next:AtomicRc::null()});
    let aw: &'static AtomicWeak<Node> = Box::leak(Box::new(AtomicWeak::from(child.downgrade())));
    let parent = Rc::new(Node{id:12,next:AtomicRc::null()});
    { let g = cs(); parent.as_ref().unwrap().next.store(child, SeqCst, &g); }
    for _ in 0..5 { adv(); }
    let d0 = DROPS.load(SeqCst);
    drop(parent);
    adv(); adv();
    let (tx1, rx1) = channel::<()>(); let (tx2, rx2) = channel::<()>();
    let h = std::thread::spawn(move || {
        let g = cs();
        let s = aw.load(SeqCst, &g).upgrade();
        tx1.send(()).unwrap(); rx2.recv().unwrap();
        println!("(f) T2 in CS after upgrade(is_some={}): drops since = {} (1 = only parent; 2 = child destructed under the Snapshot)", s.is_some(), DROPS.load(SeqCst)-d0);
        drop(g);
    });
    rx1.recv().unwrap(); adv(); adv(); tx2.send(()).unwrap(); h.join().unwrap();
    for _ in 0..8 { adv(); }
    println!("(f) finally drops since = {}", DROPS.load(SeqCst)-d0);
    // (d)
    let a = AtomicRc::new(Node{id:5,next:AtomicRc::null()});
    let aw: AtomicWeak<Node> = AtomicWeak::null();
    { let g = cs(); let rc5 = a.load(SeqCst,&g).counted(); drop(a.swap(rc5, SeqCst)); let s = a.load(SeqCst,&g); aw.store(s.downgrade().counted(), SeqCst, &g); }
    for _ in 0..3 { adv(); }
    { let g = cs(); let rc5 = a.load(SeqCst,&g).counted(); drop(a.swap(rc5, SeqCst)); let s2 = a.load(SeqCst,&g);
      println!("(d) CAS with ptr_eq expected: ok = {}", aw.compare_exchange(s2.downgrade(), Weak::null(), SeqCst, SeqCst, &g).is_ok()); }
}
