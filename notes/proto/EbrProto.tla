---------------------------- MODULE EbrProto ----------------------------
EXTENDS Integers, FiniteSets, Sequences, TLC
CONSTANTS P, NT, Cap, MaxEp, Expire, FixW, Revalidate, MaxCS, Seed, MaxFlush, Nester
VARIABLES gep, lep, lpin, gc, ug, csid, coll, mustc, bag, queue, pc, ge, scan, cur, st, act, ran, trials, nest, fl
vars == <<gep, lep, lpin, gc, ug, csid, coll, mustc, bag, queue, pc, ge, scan, cur, st, act, ran, trials, nest, fl>>
Task == 1..NT
Init == /\ gep = 0 /\ lep = [p \in P |-> 0] /\ lpin = [p \in P |-> FALSE]
        /\ gc = [p \in P |-> 0] /\ ug = [p \in P |-> 0] /\ csid = [p \in P |-> 0]
        /\ coll = [p \in P |-> FALSE] /\ mustc = [p \in P |-> FALSE]
        /\ bag = [p \in P |-> {}] /\ queue = <<>> /\ pc = [p \in P |-> "idle"]
        /\ ge = [p \in P |-> 0] /\ scan = [p \in P |-> {}] /\ cur = [p \in P |-> {}]
        /\ st = [k \in Task |-> "new"] /\ act = [k \in Task |-> {}] /\ ran = [k \in Task |-> 0]
        /\ trials = [p \in P |-> 0] /\ nest = [p \in P |-> "no"] /\ fl = [p \in P |-> 0]
\* seeded: the Nester is already inside a task of its collection phase (outermost guard dropped)
InitSeed == \E n \in Nester :
        /\ gep = 0 /\ lep = [p \in P |-> 0] /\ lpin = [p \in P |-> p = n]
        /\ gc = [p \in P |-> IF p = n THEN 1 ELSE 0] /\ ug = [p \in P |-> 0] /\ csid = [p \in P |-> IF p = n THEN 1 ELSE 0]
        /\ coll = [p \in P |-> p = n] /\ mustc = [p \in P |-> FALSE]
        /\ bag = [p \in P |-> {}] /\ queue = <<>> /\ pc = [p \in P |-> IF p = n THEN "task" ELSE "idle"]
        /\ ge = [p \in P |-> 0] /\ scan = [p \in P |-> {}] /\ cur = [p \in P |-> {}]
        /\ st = [k \in Task |-> IF k = NT THEN "done" ELSE "new"] /\ act = [k \in Task |-> {}] /\ ran = [k \in Task |-> IF k = NT THEN 1 ELSE 0]
        /\ trials = [p \in P |-> 0] /\ nest = [p \in P |-> "no"] /\ fl = [p \in P |-> 0]
Goto(p, l) == pc' = [pc EXCEPT ![p] = l]
ActiveCS == {<<q, csid[q]>> : q \in {r \in P : ug[r] > 0}}
\* ---- pin ----
PinStart(p) == /\ pc[p] \in {"idle", "task"} /\ csid[p] < MaxCS
               /\ (pc[p] = "task" => nest[p] = "no" /\ p \in Nester)
               /\ IF gc[p] = 0
                    THEN Goto(p, "pin1") /\ UNCHANGED <<gc, ug, csid, nest, fl>>
                    ELSE /\ gc' = [gc EXCEPT ![p] = @ + 1] /\ ug' = [ug EXCEPT ![p] = @ + 1]
                         /\ csid' = IF ug[p] = 0 THEN [csid EXCEPT ![p] = @ + 1] ELSE csid
                         /\ nest' = IF pc[p] = "task" THEN [nest EXCEPT ![p] = "in"] ELSE nest
                         /\ UNCHANGED pc
               /\ UNCHANGED <<gep, lep, lpin, coll, mustc, bag, queue, ge, scan, cur, st, act, ran, trials, fl>>
Pin1(p) == /\ pc[p] = "pin1" /\ ge' = [ge EXCEPT ![p] = gep] /\ Goto(p, "pin2")
           /\ UNCHANGED <<gep, lep, lpin, gc, ug, csid, coll, mustc, bag, queue, scan, cur, st, act, ran, trials, nest, fl>>
Pin2(p) == /\ pc[p] = "pin2" /\ lep' = [lep EXCEPT ![p] = ge[p]] /\ lpin' = [lpin EXCEPT ![p] = TRUE]
           /\ Goto(p, "pin3")
           /\ UNCHANGED <<gep, gc, ug, csid, coll, mustc, bag, queue, ge, scan, cur, st, act, ran, trials, nest, fl>>
Pin3(p) == /\ pc[p] = "pin3"
           /\ IF ~Revalidate \/ gep = ge[p]
                THEN /\ gc' = [gc EXCEPT ![p] = 1] /\ ug' = [ug EXCEPT ![p] = 1]
                     /\ csid' = [csid EXCEPT ![p] = @ + 1] /\ Goto(p, "idle") /\ UNCHANGED lpin
                ELSE /\ lpin' = [lpin EXCEPT ![p] = FALSE] /\ Goto(p, "pin1") /\ UNCHANGED <<gc, ug, csid, fl>>
           /\ UNCHANGED <<gep, lep, coll, mustc, bag, queue, ge, scan, cur, st, act, ran, trials, nest, fl>>
\* ---- defer / flush ----
PushBagOf(p) == queue' = Append(queue, [ep |-> gep, ts |-> bag[p]])
RepinIfColl(p) == IF coll[p] /\ (~FixW \/ gc[p] = 1) THEN lep' = [lep EXCEPT ![p] = gep] ELSE UNCHANGED lep
Defer(p) == /\ pc[p] \in {"idle", "task"} /\ gc[p] > 0
            /\ \E k \in Task : /\ st[k] = "new" /\ \A j \in Task : st[j] = "new" => j >= k
                 /\ st' = [st EXCEPT ![k] = "bag"] /\ act' = [act EXCEPT ![k] = ActiveCS]
                 /\ IF Cardinality(bag[p]) < Cap
                      THEN bag' = [bag EXCEPT ![p] = @ \cup {k}] /\ UNCHANGED <<queue, mustc, lep, fl>>
                      ELSE /\ PushBagOf(p) /\ bag' = [bag EXCEPT ![p] = {k}]
                           /\ mustc' = [mustc EXCEPT ![p] = TRUE] /\ RepinIfColl(p)
            /\ UNCHANGED <<gep, lpin, gc, ug, csid, coll, pc, ge, scan, cur, ran, trials, nest, fl>>
Flush(p) == /\ pc[p] \in {"idle", "task"} /\ gc[p] > 0 /\ fl[p] < MaxFlush /\ fl' = [fl EXCEPT ![p] = @ + 1]
            /\ IF bag[p] # {} THEN PushBagOf(p) /\ bag' = [bag EXCEPT ![p] = {}] ELSE UNCHANGED <<queue, bag>>
            /\ mustc' = [mustc EXCEPT ![p] = TRUE] /\ RepinIfColl(p)
            /\ UNCHANGED <<gep, lpin, gc, ug, csid, coll, pc, ge, scan, cur, st, act, ran, trials, nest>>
\* ---- unpin ----
GuardDrop(p) == /\ pc[p] \in {"idle", "task"} /\ ug[p] > 0
                /\ (pc[p] = "task" => nest[p] = "in")
                /\ IF gc[p] = 1 /\ ~coll[p]
                     THEN /\ ug' = [ug EXCEPT ![p] = 0] /\ coll' = [coll EXCEPT ![p] = TRUE]
                          /\ Goto(p, "col_loop") /\ UNCHANGED <<gc, nest, fl>>
                     ELSE /\ gc' = [gc EXCEPT ![p] = @ - 1] /\ ug' = [ug EXCEPT ![p] = @ - 1]
                          /\ nest' = IF pc[p] = "task" THEN [nest EXCEPT ![p] = "done"] ELSE nest
                          /\ UNCHANGED <<coll, pc, fl>>
                /\ UNCHANGED <<gep, lep, lpin, csid, mustc, bag, queue, ge, scan, cur, st, act, ran, trials, fl>>
ColLoop(p) == /\ pc[p] = "col_loop"
              /\ IF mustc[p] THEN mustc' = [mustc EXCEPT ![p] = FALSE] /\ Goto(p, "adv1")
                             ELSE UNCHANGED mustc /\ Goto(p, "unpin_end")
              /\ UNCHANGED <<gep, lep, lpin, gc, ug, csid, coll, bag, queue, ge, scan, cur, st, act, ran, trials, nest, fl>>
Adv1(p) == /\ pc[p] = "adv1" /\ ge' = [ge EXCEPT ![p] = gep] /\ scan' = [scan EXCEPT ![p] = P]
           /\ Goto(p, "adv2")
           /\ UNCHANGED <<gep, lep, lpin, gc, ug, csid, coll, mustc, bag, queue, cur, st, act, ran, trials, nest, fl>>
Adv2(p) == /\ pc[p] = "adv2"
           /\ IF scan[p] = {} THEN Goto(p, "adv3") /\ UNCHANGED <<scan, trials, fl>>
              ELSE \E q \in scan[p] :
                     IF lpin[q] /\ lep[q] # ge[p]
                       THEN Goto(p, "pop") /\ trials' = [trials EXCEPT ![p] = 0] /\ UNCHANGED scan
                       ELSE scan' = [scan EXCEPT ![p] = @ \ {q}] /\ UNCHANGED <<pc, trials, fl>>
           /\ UNCHANGED <<gep, lep, lpin, gc, ug, csid, coll, mustc, bag, queue, ge, cur, st, act, ran, nest, fl>>
Adv3(p) == /\ pc[p] = "adv3" /\ ge[p] < MaxEp
           /\ gep' = ge[p] + 1 /\ Goto(p, "pop") /\ trials' = [trials EXCEPT ![p] = 0]
           /\ UNCHANGED <<lep, lpin, gc, ug, csid, coll, mustc, bag, queue, ge, scan, cur, st, act, ran, nest, fl>>
Pop(p) == /\ pc[p] = "pop"
          /\ IF trials[p] < 2 /\ queue # <<>> /\ gep - Head(queue).ep >= Expire
               THEN /\ cur' = [cur EXCEPT ![p] = Head(queue).ts] /\ queue' = Tail(queue)
                    /\ trials' = [trials EXCEPT ![p] = @ + 1] /\ Goto(p, "run")
               ELSE Goto(p, "col_repin") /\ UNCHANGED <<cur, queue, trials, fl>>
          /\ UNCHANGED <<gep, lep, lpin, gc, ug, csid, coll, mustc, bag, ge, scan, st, act, ran, nest, fl>>
Run(p) == /\ pc[p] = "run"
          /\ IF cur[p] = {} THEN Goto(p, "pop") /\ UNCHANGED <<cur, st, ran, nest, fl>>
             ELSE \E k \in cur[p] : /\ cur' = [cur EXCEPT ![p] = @ \ {k}]
                                    /\ st' = [st EXCEPT ![k] = "done"] /\ ran' = [ran EXCEPT ![k] = @ + 1]
                                    /\ nest' = [nest EXCEPT ![p] = "no"] /\ Goto(p, "task")
          /\ UNCHANGED <<gep, lep, lpin, gc, ug, csid, coll, mustc, bag, queue, ge, scan, act, trials, fl>>
TaskEnd(p) == /\ pc[p] = "task" /\ nest[p] # "in" /\ Goto(p, "run")
              /\ UNCHANGED <<gep, lep, lpin, gc, ug, csid, coll, mustc, bag, queue, ge, scan, cur, st, act, ran, trials, nest, fl>>
ColRepin(p) == /\ pc[p] = "col_repin" /\ lep' = [lep EXCEPT ![p] = gep] /\ Goto(p, "col_loop")
               /\ UNCHANGED <<gep, lpin, gc, ug, csid, coll, mustc, bag, queue, ge, scan, cur, st, act, ran, trials, nest, fl>>
UnpinEnd(p) == /\ pc[p] = "unpin_end" /\ coll' = [coll EXCEPT ![p] = FALSE]
               /\ gc' = [gc EXCEPT ![p] = 0] /\ lpin' = [lpin EXCEPT ![p] = FALSE] /\ Goto(p, "idle")
               /\ UNCHANGED <<gep, lep, ug, csid, mustc, bag, queue, ge, scan, cur, st, act, ran, trials, nest, fl>>
Next == \E p \in P : PinStart(p) \/ Pin1(p) \/ Pin2(p) \/ Pin3(p) \/ Defer(p) \/ Flush(p) \/ GuardDrop(p)
          \/ ColLoop(p) \/ Adv1(p) \/ Adv2(p) \/ Adv3(p) \/ Pop(p) \/ Run(p) \/ TaskEnd(p) \/ ColRepin(p) \/ UnpinEnd(p)
Spec == (IF Seed = "none" THEN Init ELSE InitSeed) /\ [][Next]_vars
\* ---- properties ----
C13 == \A k \in Task : st[k] = "done" => \A c \in act[k] : ~(ug[c[1]] > 0 /\ csid[c[1]] = c[2])
EpochBound == \A p \in P : gc[p] > 0 => gep \in {lep[p], lep[p] + 1}
Mono == [][gep' \in {gep, gep + 1}]_gep
Once == \A k \in Task : ran[k] <= 1
=============================================================================
