SPECIFICATION Spec
CONSTANTS
  Thr = {t1, t2}
  Obj = {1}
  Cell = {c1}
  NULL = 0
  M = 16
  InitEp = 6
  MaxEp = 12
  MaxOps = 4
  MaxDepth = 3
  FixPin = TRUE
  FixInc = FALSE
  FixMark = TRUE
  FixStamp = TRUE
  OpsEnabled = {"new","downgrade","drop","upgrade","pin"}
  Scen = "empty"
  ExpAge = 3
  CasAge = 3
INVARIANTS C01 C01Link C02 C03 NoUnderflow Once EpochBound
CHECK_DEADLOCK FALSE
