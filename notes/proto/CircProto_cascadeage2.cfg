SPECIFICATION Spec
CONSTANTS
  Thr = {t1, t2}
  Obj = {1, 2}
  Cell = {c1}
  NULL = 0
  M = 16
  InitEp = 6
  MaxEp = 10
  MaxOps = 4
  MaxDepth = 3
  FixPin = TRUE
  FixInc = TRUE
  FixMark = TRUE
  FixStamp = TRUE
  OpsEnabled = {"load","store","drop","pin"}
  Scen = "chain"
  ExpAge = 3
  CasAge = 2
INVARIANTS C01 C01Link C02 C03 NoUnderflow Once EpochBound
CHECK_DEADLOCK FALSE
