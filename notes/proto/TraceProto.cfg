SPECIFICATION TSpec
CONSTANTS
  Thr = {t1, t2}
  Obj = {1}
  Cell = {c1}
  NULL = 0
  M = 16
  InitEp = 6
  MaxEp = 12
  MaxOps = 4
  MaxDepth = 3
  FixPin = TRUE
  FixInc = FALSE
  FixMark = TRUE
  FixStamp = TRUE
  OpsEnabled = {"new","downgrade","drop","upgrade","pin"}
  Scen = "empty"
INVARIANTS C02 C03 Once
CHECK_DEADLOCK FALSE
POSTCONDITION Accepted
