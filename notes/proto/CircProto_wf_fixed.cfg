SPECIFICATION Spec
CONSTANTS
  Thr = {t1, t2}
  Obj = {1, 2}
  Cell = {c1}
  NULL = 0
  M = 16
  InitEp = 6
  MaxEp = 13
  MaxOps = 3
  MaxDepth = 3
  FixPin = TRUE
  FixInc = TRUE
  FixMark = TRUE
  FixStamp = TRUE
  OpsEnabled = {"new","store","drop","pin","load","counted"}
  Scen = "empty"
  ExpAge = 3
  CasAge = 3
INVARIANTS WF TaskOnce C01 C02 Once Leak
CHECK_DEADLOCK FALSE
