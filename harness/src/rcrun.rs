//! Scenario drivers for the reference-counting layer: seeded heap templates, the random
//! most-general client with controllable preemption/epoch advances, and a stall mode that delays
//! one thread between two of its atomic steps for several grace periods.
use crate::rcworld::*;
use crate::sched::Rng;

pub const VOCAB_STRONG: &[&str] = &[
    "new", "clone", "drop", "drop", "finalize", "snap", "counted", "load", "load", "store", "store", "swap", "cas", "cas_weak", "pin", "unpin", "collect", "flush",
];
pub const VOCAB_WEAK: &[&str] = &[
    "new", "clone", "drop", "drop", "downgrade", "downgrade", "wclone", "dropweak", "wsnap", "snapdown", "wcounted", "upgrade", "upgrade", "wsupgrade", "wsupgrade", "load", "store",
    "wload", "wstore", "wswap", "wcas", "pin", "unpin", "collect", "flush", "reactivate",
];
pub const VOCAB_CELL: &[&str] = &["load", "store", "swap", "cas", "cas", "cas_weak", "cas_tag", "with_tag", "clone", "drop", "new", "pin", "snap"];
pub const VOCAB_WCELL: &[&str] = &["wload", "wstore", "wswap", "wcas", "wcas", "wcas_weak", "wcas_tag", "downgrade", "wclone", "dropweak", "wsnap", "snapdown", "load", "clone", "pin", "new"];
pub const VOCAB_BULK: &[&str] = &["new_many", "iter_new", "iter_next", "iter_next", "iter_drop", "iter_abort", "drop", "clone", "pin", "unpin", "store", "load", "collect"];
pub const VOCAB_ALL: &[&str] = &[
    "new", "new_many", "iter_new", "iter_next", "iter_drop", "iter_abort", "clone", "drop", "drop", "finalize", "snap", "counted", "with_tag", "load", "store", "swap", "cas", "cas_weak",
    "cas_tag", "downgrade", "wclone", "dropweak", "wsnap", "snapdown", "wcounted", "upgrade", "wsupgrade", "wload", "wstore", "wswap", "wcas", "wcas_tag", "pin", "unpin", "reactivate",
    "flush", "collect",
];

pub fn vocab(name: &str) -> &'static [&'static str] {
    match name {
        "strong" => VOCAB_STRONG,
        "weak" => VOCAB_WEAK,
        "cell" => VOCAB_CELL,
        "wcell" => VOCAB_WCELL,
        "bulk" => VOCAB_BULK,
        _ => VOCAB_ALL,
    }
}

#[derive(Clone, Debug)]
pub struct RandCfg {
    pub vocab: &'static [&'static str],
    pub template: usize,
    pub max_ops: usize,
    /// probability (per mille) of an epoch-advance burst at a decision point
    pub p_adv: u32,
    /// probability (percent) of staying on the running thread
    pub p_stay: u32,
    pub ntags: usize,
    pub stall: bool,
    pub residue: Option<usize>,
    /// the code's own `try_advance` is not blocked (it runs in every collection and on every 64th deferral), so
    /// that the reference-counting layer is exercised over the real epoch protocol, not only over the controller's
    pub nat: bool,
}

/// Builds one of the seeded heaps (all through real API calls, booked in the shadow state).
pub fn build_template(ctl: &mut Ctl, k: usize) {
    let nt = ctl.ws.len();
    let b = 1 % nt;
    match k {
        0 => {}
        // chain P -> X, X also in cell 0, t0 holds Rc(X), t1 holds Rc(P)
        1 => {
            ctl.run(0, Op::New { dst: 0, next: RcArg::Null(0) }); // X
            ctl.run(0, Op::Clone { src: 0, dst: 1 });
            ctl.run(0, Op::Clone { src: 0, dst: 2 });
            ctl.run(0, Op::New { dst: 3, next: RcArg::Slot(1) }); // P -> X (link without timestamp)
            ctl.run(0, Op::Pin);
            ctl.run(0, Op::Store { loc: Loc::Cell(0), val: RcArg::Slot(2) });
            ctl.run(0, Op::Unpin);
            ctl.run(0, Op::Give { kind: 'r', slot: 3, to: b, to_slot: 0 });
            ctl.run(b, Op::Recv);
        }
        // X held strongly by t1, weakly by t0 and through wcell 0
        2 => {
            ctl.run(0, Op::New { dst: 0, next: RcArg::Null(0) });
            ctl.run(0, Op::Downgrade { src: 0, dst: 0 });
            ctl.run(0, Op::Downgrade { src: 0, dst: 1 });
            ctl.run(0, Op::Pin);
            ctl.run(0, Op::WStore { loc: WLoc::Cell(0), val: RcArg::Slot(1) });
            ctl.run(0, Op::Unpin);
            ctl.run(0, Op::Give { kind: 'r', slot: 0, to: b, to_slot: 0 });
            ctl.run(b, Op::Recv);
        }
        // chain of three in cell 0: A -> B -> C ; t0 holds weak(C), t1 holds Rc(B)
        3 => {
            ctl.run(0, Op::New { dst: 0, next: RcArg::Null(0) }); // C
            ctl.run(0, Op::Downgrade { src: 0, dst: 0 });
            ctl.run(0, Op::New { dst: 1, next: RcArg::Slot(0) }); // B -> C
            ctl.run(0, Op::Clone { src: 1, dst: 2 });
            ctl.run(0, Op::New { dst: 3, next: RcArg::Slot(1) }); // A -> B
            ctl.run(0, Op::Pin);
            ctl.run(0, Op::Store { loc: Loc::Cell(0), val: RcArg::Slot(3) });
            ctl.run(0, Op::Unpin);
            ctl.run(0, Op::Give { kind: 'r', slot: 2, to: b, to_slot: 0 });
            ctl.run(b, Op::Recv);
        }
        // DAG: P1 -> S, P2 -> S ; t0 holds P1, t1 holds P2, weak(S) in wcell 0
        4 => {
            ctl.run(0, Op::New { dst: 0, next: RcArg::Null(0) }); // S
            ctl.run(0, Op::Clone { src: 0, dst: 1 });
            ctl.run(0, Op::Downgrade { src: 0, dst: 0 });
            ctl.run(0, Op::New { dst: 2, next: RcArg::Slot(0) }); // P1
            ctl.run(0, Op::New { dst: 3, next: RcArg::Slot(1) }); // P2
            ctl.run(0, Op::Pin);
            ctl.run(0, Op::WStore { loc: WLoc::Cell(0), val: RcArg::Slot(0) });
            ctl.run(0, Op::Unpin);
            ctl.run(0, Op::Give { kind: 'r', slot: 3, to: b, to_slot: 0 });
            ctl.run(b, Op::Recv);
        }
        // doubly linked pair: A -> B strongly, B -> A weakly; A in cell 0; t1 holds Rc(B)
        5 => {
            ctl.run(0, Op::New { dst: 0, next: RcArg::Null(0) }); // B
            ctl.run(0, Op::Clone { src: 0, dst: 1 });
            ctl.run(0, Op::New { dst: 2, next: RcArg::Slot(1) }); // A -> B
            ctl.run(0, Op::Downgrade { src: 2, dst: 0 });
            ctl.run(0, Op::Pin);
            ctl.run(0, Op::WStore { loc: WLoc::RcField(0), val: RcArg::Slot(0) });
            ctl.run(0, Op::Store { loc: Loc::Cell(0), val: RcArg::Slot(2) });
            ctl.run(0, Op::Unpin);
            ctl.run(0, Op::Give { kind: 'r', slot: 0, to: b, to_slot: 0 });
            ctl.run(b, Op::Recv);
        }
        // tree: R -> (L, Rr) in cell 1; t0 holds Rc(L), t1 holds weak(Rr)
        _ => {
            ctl.run(0, Op::New { dst: 0, next: RcArg::Null(0) }); // L
            ctl.run(0, Op::New { dst: 1, next: RcArg::Null(0) }); // Rr
            ctl.run(0, Op::Downgrade { src: 1, dst: 0 });
            ctl.run(0, Op::Clone { src: 0, dst: 2 });
            ctl.run(0, Op::New { dst: 3, next: RcArg::Slot(2) }); // R -> L
            ctl.run(0, Op::Pin);
            ctl.run(0, Op::Store { loc: Loc::RcField(3, 1), val: RcArg::Slot(1) }); // R.next2 = Rr
            ctl.run(0, Op::Store { loc: Loc::Cell(1), val: RcArg::Slot(3) });
            ctl.run(0, Op::Unpin);
            ctl.run(0, Op::Give { kind: 'w', slot: 0, to: b, to_slot: 0 });
            ctl.run(b, Op::Recv);
        }
    }
}
pub const NTEMPLATE: usize = 7;

/// One random scenario. Returns `false` if it had to be abandoned (panic in the code under test).
pub fn run_random(ctl: &mut Ctl, cfg: &RandCfg, rng: &mut Rng, label: &str) -> bool {
    if let Some(r) = cfg.residue {
        ctl.advance_to_residue(r);
    }
    ctl.reset(label);
    build_template(ctl, cfg.template);
    if cfg.nat {
        circ::verif::set_advance_blocked(false);
    }
    let nt = ctl.ws.len();
    for sh in ctl.sh.iter_mut() {
        sh.nops = 0;
    }
    let mut cur = rng.below(nt);
    // stall mode: freeze `victim` after `stall_after` of its own steps, release it once the
    // others are done and `stall_adv` grace periods have passed
    let victim = rng.below(nt);
    let stall_after = 1 + rng.below(8);
    let stall_adv = 3 + rng.below(5);
    let mut vsteps = 0usize;
    let mut frozen = false;
    let mut thawed = !cfg.stall;
    let mut guard = 0;
    loop {
        guard += 1;
        if guard > 4000 || !ctl.panics.is_empty() {
            break;
        }
        if frozen {
            let others_done = (0..nt).all(|t| t == victim || (ctl.idle(t) && ctl.sh[t].nops >= cfg.max_ops));
            if others_done {
                // grace periods while the victim sleeps between two atomic steps
                for t in 0..nt {
                    if t != victim && ctl.sh[t].pinned {
                        ctl.run(t, Op::Unpin);
                    }
                }
                for _ in 0..stall_adv {
                    ctl.advance();
                    for t in 0..nt {
                        if t != victim {
                            ctl.run(t, Op::Collect);
                        }
                    }
                }
                // give the others a second, shorter life so that they can act on what the
                // sleeping thread is about to overwrite
                for t in 0..nt {
                    if t != victim {
                        ctl.sh[t].nops = cfg.max_ops.saturating_sub(2);
                    }
                }
                frozen = false;
                thawed = true;
            }
        }
        let enabled: Vec<usize> = (0..nt)
            .filter(|&t| !(frozen && t == victim) && (!ctl.idle(t) || ctl.sh[t].nops < cfg.max_ops))
            .collect();
        if enabled.is_empty() {
            if frozen {
                continue;
            }
            break;
        }
        if rng.chance(cfg.p_adv, 1000) {
            let burst = 1 + rng.below(4);
            for _ in 0..burst {
                ctl.advance();
            }
            continue;
        }
        if !enabled.contains(&cur) || !rng.chance(cfg.p_stay, 100) {
            cur = *rng.pick(&enabled);
        }
        if ctl.idle(cur) {
            match choose_op(ctl, cur, rng, cfg.vocab, cfg.ntags) {
                Some(op) => ctl.start(cur, op),
                None => {
                    ctl.sh[cur].nops += 1; // nothing applicable: burn budget so the run ends
                }
            }
        } else {
            ctl.step(cur);
        }
        if cur == victim && !thawed && !frozen {
            vsteps += 1;
            if vsteps >= stall_after && !ctl.idle(victim) {
                frozen = true;
            }
        }
    }
    circ::verif::set_advance_blocked(true);
    if !ctl.panics.is_empty() {
        let msg = ctl.panics.join("; ");
        ctl.record("abort", usize::MAX, &msg, None);
        return false;
    }
    ctl.finisher(true);
    if !ctl.panics.is_empty() {
        let msg = ctl.panics.join("; ");
        ctl.record("abort", usize::MAX, &msg, None);
        return false;
    }
    true
}
