//! Bounded systematic exploration for the reference-counting layer: for every ordered pair of
//! calls (A by thread 0, B by thread 1) from a vocabulary that covers every API entry point, and
//! for every scheduling point k of A, run A for k steps, then B to completion, then the rest of A
//! - i.e. every schedule with one preemption - on a fixed small heap in which every location is
//! contended.  A second variant lets three grace periods (with collections by a third party) pass
//! while A is preempted.  Every run ends with the finisher.
use crate::rcworld::*;

/// heap: X in cell0 / wcell0, Y spare; each thread holds Rc(X) slot0, Rc(Y) slot1, Rc(Y) slot2, Weak(X) slot0,
/// Weak(Y) slot1, is pinned, and has Snapshot(X) slot0 (loaded from cell0) and WeakSnapshot(X) slot0.
fn setup(ctl: &mut Ctl, label: &str) {
    ctl.reset(label);
    ctl.log_enabled = false; // the fixed prefix is recorded as one line
    ctl.run(0, Op::New { dst: 0, next: RcArg::Null(0) }); // X
    ctl.run(0, Op::New { dst: 1, next: RcArg::Null(0) }); // Y
    ctl.run(0, Op::Clone { src: 1, dst: 2 });
    ctl.run(0, Op::Downgrade { src: 0, dst: 0 });
    ctl.run(0, Op::Downgrade { src: 1, dst: 1 });
    ctl.run(0, Op::Clone { src: 0, dst: 3 });
    ctl.run(0, Op::Downgrade { src: 0, dst: 2 });
    ctl.run(0, Op::Pin);
    ctl.run(0, Op::Store { loc: Loc::Cell(0), val: RcArg::Slot(3) });
    ctl.run(0, Op::WStore { loc: WLoc::Cell(0), val: RcArg::Slot(2) });
    // the same for thread 1, through the mailbox
    for (src, to_slot) in [(0usize, 0usize), (1, 1), (1, 2)] {
        ctl.run(0, Op::Clone { src, dst: 4 });
        ctl.run(0, Op::Give { kind: 'r', slot: 4, to: 1, to_slot });
    }
    for (src, to_slot) in [(0usize, 0usize), (1, 1)] {
        ctl.run(0, Op::WClone { src, dst: 3 });
        ctl.run(0, Op::Give { kind: 'w', slot: 3, to: 1, to_slot });
    }
    ctl.run(1, Op::Recv);
    // pointers to X that carry three different internal timestamps: none (fresh Rc / its Weak), the one of
    // the link they were swapped out of at epoch e+1 (stored back into the cells), and another one at e+2
    ctl.run(0, Op::Unpin);
    ctl.advance();
    ctl.run(0, Op::Pin);
    ctl.run(0, Op::Clone { src: 0, dst: 4 });
    ctl.run(0, Op::Swap { loc: Loc::Cell(0), val: RcArg::Slot(4), dst: 4 }); // Rc(X) with timestamp e
    ctl.run(0, Op::Downgrade { src: 4, dst: 3 });
    ctl.run(0, Op::WStore { loc: WLoc::Cell(0), val: RcArg::Slot(3) }); // the weak cell now holds a stamped word
    ctl.run(0, Op::Drop { slot: 4 });
    ctl.run(0, Op::Unpin);
    ctl.advance();
    ctl.run(0, Op::Pin);
    ctl.run(0, Op::Clone { src: 0, dst: 4 });
    ctl.run(0, Op::Swap { loc: Loc::Cell(0), val: RcArg::Slot(4), dst: 4 });
    ctl.run(0, Op::Downgrade { src: 4, dst: 3 }); // Weak(X) with a third timestamp
    ctl.run(0, Op::Give { kind: 'r', slot: 4, to: 1, to_slot: 3 }); // thread 1: Rc(X) stamped, slot 3
    ctl.run(0, Op::Give { kind: 'w', slot: 3, to: 1, to_slot: 3 }); // thread 1: Weak(X) stamped, slot 3
    ctl.run(1, Op::Recv);
    ctl.run(1, Op::Pin);
    for t in 0..2 {
        ctl.run(t, Op::Load { loc: Loc::Cell(0), dst: 0 });
        ctl.run(t, Op::WLoad { loc: WLoc::Cell(0), dst: 0 });
        // expected values that are ptr_eq to the cell content but differ in the timestamp
        ctl.run(t, Op::Snap { src: 0, dst: 1 });
        ctl.run(t, Op::WSnap { src: 0, dst: 1 });
    }
    ctl.log_enabled = true;
    ctl.record("setup", usize::MAX, label, None);
}

pub fn vocabulary() -> Vec<(&'static str, Op)> {
    vec![
        ("store_y", Op::Store { loc: Loc::Cell(0), val: RcArg::Slot(1) }),
        ("store_null", Op::Store { loc: Loc::Cell(0), val: RcArg::Null(0) }),
        ("swap_y", Op::Swap { loc: Loc::Cell(0), val: RcArg::Slot(1), dst: 5 }),
        ("cas_y", Op::Cas { loc: Loc::Cell(0), exp: SnArg::Slot(0), val: RcArg::Slot(1), weak: false, dst_rc: 5, dst_sn: 2 }),
        ("casw_null", Op::Cas { loc: Loc::Cell(0), exp: SnArg::Slot(0), val: RcArg::Null(0), weak: true, dst_rc: 5, dst_sn: 2 }),
        ("cas_tag", Op::CasTag { loc: Loc::Cell(0), exp: SnArg::Slot(0), tag: 1, dst_sn: 2 }),
        ("load", Op::Load { loc: Loc::Cell(0), dst: 3 }),
        ("drop_x", Op::Drop { slot: 0 }),
        ("finalize_x", Op::Finalize { slot: 0 }),
        ("clone_x", Op::Clone { src: 0, dst: 6 }),
        ("counted", Op::Counted { sn: 0, dst: 6 }),
        ("upgrade", Op::Upgrade { src: 0, dst: 6 }),
        ("wsupgrade", Op::WSUpgrade { ws: 0, dst: 4 }),
        ("downgrade", Op::Downgrade { src: 0, dst: 4 }),
        ("weak_many", Op::WeakMany { src: 0, n: 2, dsts: vec![4, 5] }),
        ("wcounted", Op::WCounted { ws: 0, dst: 4 }),
        ("dropweak", Op::DropWeak { slot: 0 }),
        ("wstore_y", Op::WStore { loc: WLoc::Cell(0), val: RcArg::Slot(1) }),
        ("wswap_null", Op::WSwap { loc: WLoc::Cell(0), val: RcArg::Null(0), dst: 4 }),
        ("wcas_y", Op::WCas { loc: WLoc::Cell(0), exp: SnArg::Slot(0), val: RcArg::Slot(1), weak: false, dst_wk: 4, dst_ws: 2 }),
        ("wcas_tag", Op::WCasTag { loc: WLoc::Cell(0), exp: SnArg::Slot(0), tag: 1, dst_ws: 2 }),
        // expected differs from the stored word only in the internal timestamp
        ("cas_x0", Op::Cas { loc: Loc::Cell(0), exp: SnArg::Slot(1), val: RcArg::Slot(1), weak: false, dst_rc: 5, dst_sn: 2 }),
        ("cas_tag_x0", Op::CasTag { loc: Loc::Cell(0), exp: SnArg::Slot(1), tag: 2, dst_sn: 2 }),
        ("wcas_x0", Op::WCas { loc: WLoc::Cell(0), exp: SnArg::Slot(1), val: RcArg::Slot(1), weak: false, dst_wk: 4, dst_ws: 2 }),
        ("wcas_tag_x0", Op::WCasTag { loc: WLoc::Cell(0), exp: SnArg::Slot(1), tag: 2, dst_ws: 2 }),
        // the same pointer written back with another timestamp (thread 1 only holds these)
        ("store_xts", Op::Store { loc: Loc::Cell(0), val: RcArg::Slot(3) }),
        ("wstore_xts", Op::WStore { loc: WLoc::Cell(0), val: RcArg::Slot(3) }),
        // the same calls on a cell that is EMPTY (cell 1): peek-then-write shortcuts for the empty case race here
        ("store_y_e", Op::Store { loc: Loc::Cell(1), val: RcArg::Slot(2) }),
        ("store_null_e", Op::Store { loc: Loc::Cell(1), val: RcArg::Null(0) }),
        ("swap_y_e", Op::Swap { loc: Loc::Cell(1), val: RcArg::Slot(2), dst: 5 }),
        ("cas_y_e", Op::Cas { loc: Loc::Cell(1), exp: SnArg::Null(0), val: RcArg::Slot(2), weak: false, dst_rc: 5, dst_sn: 2 }),
        ("load_e", Op::Load { loc: Loc::Cell(1), dst: 3 }),
        ("wstore_y_e", Op::WStore { loc: WLoc::Cell(1), val: RcArg::Slot(1) }),
        ("wswap_y_e", Op::WSwap { loc: WLoc::Cell(1), val: RcArg::Slot(1), dst: 4 }),
        ("wcas_y_e", Op::WCas { loc: WLoc::Cell(1), exp: SnArg::Null(0), val: RcArg::Slot(1), weak: false, dst_wk: 4, dst_ws: 2 }),
        ("unpin", Op::Unpin),
        ("reactivate", Op::Reactivate),
    ]
}

fn steps_of(ctl: &mut Ctl, a: &Op) -> usize {
    setup(ctl, "pairs:probe");
    ctl.start(0, a.clone());
    let mut n = 0;
    while !ctl.idle(0) && n < 500 {
        ctl.step(0);
        n += 1;
    }
    ctl.finisher(true);
    n
}

/// Runs all pairs whose index falls into the given slice of the pair space (for sharding/quick tiers).
pub fn run_pairs(ctl: &mut Ctl, filter_a: &dyn Fn(&str) -> bool, filter_b: &dyn Fn(&str) -> bool, grace: bool) -> usize {
    let voc = vocabulary();
    let mut count = 0;
    for (an, a) in voc.iter() {
        if !filter_a(an) || an.ends_with("_xts") {
            continue;
        }
        let first = ctl.out.len();
        let na = steps_of(ctl, a);
        ctl.out.truncate(first);
        for (bn, b) in voc.iter() {
            if !filter_b(bn) {
                continue;
            }
            for k in 0..=na {
                setup(ctl, &format!("pairs:{}:{}:{}:{}", an, bn, k, grace as u8));
                ctl.start(0, a.clone());
                for _ in 0..k {
                    ctl.step(0);
                }
                if k > 0 && ctl.idle(0) {
                    // A already finished before its k-th step: identical to a smaller k
                    ctl.out.truncate(ctl.out.len().saturating_sub(0));
                }
                ctl.run(1, b.clone());
                if grace {
                    // both threads are pinned (unless the call was unpin): at most one advance succeeds;
                    // thread 1 leaves its critical section so that grace periods can pass
                    if ctl.sh[1].pinned {
                        ctl.run(1, Op::Unpin);
                    }
                    for _ in 0..4 {
                        ctl.advance();
                        ctl.run(1, Op::Collect);
                    }
                }
                ctl.finish(0);
                ctl.finisher(true);
                count += 1;
            }
        }
    }
    count
}
