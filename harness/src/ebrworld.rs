//! The EBR layer under the cooperative scheduler (C13-C16): private collectors, guards created and
//! dropped in any order, reactivation, deferred closures (some of which issue calls themselves),
//! thread exit with garbage pending.  EBR-class sites are scheduling points, so preemption inside
//! pin, try_advance, push_bag and collect is explored.  After every step the recorder writes the
//! variables of `specs/Ebr.tla` as observed in memory plus the ghost critical-section bookkeeping.
use std::cell::{Cell, RefCell};
use std::fmt::Write as _;
use std::panic::{catch_unwind, AssertUnwindSafe};
use std::sync::atomic::{AtomicUsize, Ordering::SeqCst};
use std::sync::{Arc, Mutex};

use circ::verif::{self, site, VCollector, VHandle};
use circ::Guard;

use crate::sched::{self, Rng, Worker};

pub const MAXTASK: usize = 64;
#[allow(clippy::declare_interior_mutable_const)]
const Z: AtomicUsize = AtomicUsize::new(0);
static RAN: [AtomicUsize; MAXTASK] = [Z; MAXTASK];
static BAD_DATA: [AtomicUsize; MAXTASK] = [Z; MAXTASK];
static EVENTS: Mutex<Vec<(String, usize, usize)>> = Mutex::new(Vec::new());
static COLLECTOR: Mutex<Option<Arc<VCollector>>> = Mutex::new(None);
/// nested programs of deferred closures, indexed by task id
static NESTED_PROG: Mutex<Vec<Vec<&'static str>>> = Mutex::new(Vec::new());

thread_local! {
    static ME: Cell<usize> = const { Cell::new(usize::MAX) };
    static HANDLE: RefCell<Option<VHandle>> = const { RefCell::new(None) };
    static NESTED_GUARDS: RefCell<Vec<Guard>> = const { RefCell::new(Vec::new()) };
}

fn emit(what: &str, a: usize, b: usize) {
    EVENTS.lock().unwrap().push((what.to_string(), a, b));
}

pub fn ev_hook(kind: u32, addr: usize, a: u64, _b: u64) {
    match kind {
        site::EV_ADVANCE => emit("advance", addr, a as usize),
        site::EV_REPIN => emit("repin", addr, a as usize),
        _ => {}
    }
}

#[derive(Clone, Debug, PartialEq)]
pub enum Op {
    Register,
    Pin,
    Unpin(usize),
    React(usize),
    ReactAfter(usize, bool),
    /// reactivate_after on guard `.0` with a closure that drops guard `.1` of the same thread
    ReactAfterDrop(usize, usize),
    Flush(usize),
    /// defer through guard `g` a closure for task `k` whose captured data has the given size class
    Defer { g: usize, k: usize, size: usize },
    Advance(usize),
    Collect(usize),
    HDrop,
}
impl Op {
    pub fn name(&self) -> &'static str {
        match self {
            Op::Register => "register",
            Op::Pin => "pin",
            Op::Unpin(_) => "unpin",
            Op::React(_) => "react",
            Op::ReactAfter(_, false) => "react_after",
            Op::ReactAfter(_, true) => "react_after_panic",
            Op::ReactAfterDrop(_, _) => "react_after_drop",
            Op::Flush(_) => "flush",
            Op::Defer { .. } => "defer",
            Op::Advance(_) => "advance",
            Op::Collect(_) => "collect",
            Op::HDrop => "hdrop",
        }
    }
}

#[derive(Clone, Debug, Default)]
pub struct Res {
    pub local_id: usize,
}

pub struct WState {
    guards: Vec<Option<Guard>>,
}

/// what a deferred closure does when it runs (on whichever thread collects it)
fn task_body(k: usize, checksum_ok: bool) {
    RAN[k].fetch_add(1, SeqCst);
    if !checksum_ok {
        BAD_DATA[k].fetch_add(1, SeqCst);
    }
    let t = ME.with(|m| m.get());
    emit("run", k, t);
    let prog = NESTED_PROG.lock().unwrap().get(k).cloned().unwrap_or_default();
    for call in prog {
        match call {
            "pin" => {
                let g = HANDLE.with(|h| h.borrow().as_ref().map(|h| h.pin()));
                if let Some(g) = g {
                    NESTED_GUARDS.with(|n| n.borrow_mut().push(g));
                    emit("nested_pin_done", t, 0);
                }
            }
            "flush" => {
                NESTED_GUARDS.with(|n| {
                    if let Some(g) = n.borrow().last() {
                        g.flush()
                    }
                });
                emit("nested_flush_done", t, 0);
            }
            "unpin" => {
                emit("nested_unpin_start", t, 0);
                let g = NESTED_GUARDS.with(|n| n.borrow_mut().pop());
                drop(g);
            }
            _ => {}
        }
    }
    emit("task_end", k, t);
}

macro_rules! defer_sized {
    ($g:expr, $k:expr, $n:literal) => {{
        let mut bytes = [0u8; $n];
        for (i, b) in bytes.iter_mut().enumerate() {
            *b = (i as u8).wrapping_mul(31).wrapping_add($k as u8).wrapping_add(7);
        }
        bytes[0] = $k as u8;
        unsafe {
            verif::defer_unchecked($g, move || {
                let k = bytes[0] as usize;
                let ok = bytes.iter().enumerate().skip(1).all(|(i, b)| *b == (i as u8).wrapping_mul(31).wrapping_add(k as u8).wrapping_add(7));
                task_body(k, ok);
            })
        }
    }};
}
#[repr(align(16))]
#[derive(Clone, Copy)]
struct Al16([u8; 16]);
#[repr(align(64))]
#[derive(Clone, Copy)]
struct Al64([u8; 64]);

pub const NSIZE: usize = 10;
/// closure shapes: sizes around the inline limit (3 words = 24 bytes, align <= 8) and over-aligned captures
fn defer_with(g: &Guard, k: usize, size: usize) {
    match size % NSIZE {
        0 => unsafe { verif::defer_unchecked(g, move || task_body(k, true)) }, // one word
        1 => defer_sized!(g, k, 1),
        2 => defer_sized!(g, k, 24), // exactly the inline limit
        3 => defer_sized!(g, k, 25), // one byte over
        4 => defer_sized!(g, k, 27),
        5 => defer_sized!(g, k, 31),
        6 => defer_sized!(g, k, 32),
        7 => defer_sized!(g, k, 80),
        8 => {
            let mut a = Al16([0x5A; 16]);
            a.0[0] = k as u8;
            unsafe { verif::defer_unchecked(g, move || task_body(a.0[0] as usize, a.0[1..].iter().all(|b| *b == 0x5A))) }
        }
        _ => {
            let mut a = Al64([0xA5; 64]);
            a.0[0] = k as u8;
            unsafe { verif::defer_unchecked(g, move || task_body(a.0[0] as usize, a.0[1..].iter().all(|b| *b == 0xA5))) }
        }
    }
}

pub fn exec(st: &mut WState, op: Op) -> Res {
    let mut r = Res::default();
    match op {
        Op::Register => {
            let c = COLLECTOR.lock().unwrap().clone().expect("no collector");
            let h = c.register();
            r.local_id = h.local_id();
            HANDLE.with(|x| *x.borrow_mut() = Some(h));
            st.guards.clear();
        }
        Op::Pin => {
            let g = HANDLE.with(|h| h.borrow().as_ref().expect("no handle").pin());
            st.guards.push(Some(g));
        }
        Op::Unpin(i) => drop(st.guards[i].take().expect("no guard")),
        Op::React(i) => st.guards[i].as_mut().expect("no guard").reactivate(),
        Op::ReactAfter(i, panic) => {
            let g = st.guards[i].as_mut().expect("no guard");
            let _ = catch_unwind(AssertUnwindSafe(|| {
                g.reactivate_after(|| {
                    emit("inside_reactivate_after", ME.with(|m| m.get()), 0);
                    if panic {
                        std::panic::resume_unwind(Box::new("closure panics"));
                    }
                })
            }));
        }
        Op::ReactAfterDrop(i, j) => {
            let other = st.guards[j].take().expect("no guard");
            let g = st.guards[i].as_mut().expect("no guard");
            g.reactivate_after(move || {
                drop(other);
                emit("inside_reactivate_after", ME.with(|m| m.get()), 0);
            });
        }
        Op::Flush(i) => st.guards[i].as_ref().expect("no guard").flush(),
        Op::Defer { g, k, size } => defer_with(st.guards[g].as_ref().expect("no guard"), k, size),
        Op::Advance(i) => {
            verif::guard_try_advance(st.guards[i].as_ref().expect("no guard"));
        }
        Op::Collect(i) => verif::guard_collect(st.guards[i].as_ref().expect("no guard")),
        Op::HDrop => HANDLE.with(|x| *x.borrow_mut() = None),
    }
    r
}

// ------------------------------------------------------------------------------------------

#[derive(Clone, Debug, Default)]
pub struct PShadow {
    pub local_id: usize,
    /// guard slots that are live (index into the worker's vector)
    pub guards: Vec<bool>,
    pub ug: usize,
    pub inst: usize,
    pub has_handle: bool,
    pub cur: Option<Op>,
    pub nops: usize,
    /// the participant's memory may be gone (handle dropped and no guard left)
    pub gone: bool,
    /// the call in progress is a reactivation of a guard that is not the only live one
    pub nonsole: bool,
}
#[derive(Clone, Debug, Default)]
pub struct TShadow {
    pub st: &'static str,
    pub act: Vec<(usize, usize)>,
    pub by: usize,
}

pub struct Ctl {
    pub ws: Vec<Worker<Op, Res>>,
    pub ps: Vec<PShadow>,
    pub ts: Vec<TShadow>,
    pub out: Vec<String>,
    pub sc: usize,
    pub line: usize,
    pub panics: Vec<String>,
    pub evbuf: Vec<String>,
    pub last_events: Vec<String>,
    /// name of the call started by the line being recorded
    pub started: Option<&'static str>,
    /// `[thread, pinned bit, live guards]` observed inside a reactivate_after closure in this step
    pub ra: Vec<usize>,
    /// values stored into the global epoch during this step, in order
    pub adv: Vec<usize>,
    pub site_hits: std::collections::BTreeMap<u32, usize>,
    pub op_hits: std::collections::BTreeMap<&'static str, usize>,
    collector: Option<Arc<VCollector>>,
    /// every collector ever used stays alive: closures of abandoned scenarios may still be queued
    graveyard: Vec<Arc<VCollector>>,
}

impl Ctl {
    pub fn new(n: usize) -> Self {
        let ws = (0..n)
            .map(|t| {
                sched::spawn(
                    format!("e{}", t),
                    8 << 20,
                    move || {
                        ME.with(|m| m.set(t));
                        (WState { guards: Vec::new() }, 0)
                    },
                    exec,
                )
            })
            .collect();
        Ctl { ws, ps: Vec::new(), ts: Vec::new(), out: Vec::new(), sc: 0, line: 0, panics: Vec::new(), evbuf: Vec::new(), last_events: Vec::new(), started: None, ra: Vec::new(), adv: Vec::new(), site_hits: Default::default(), op_hits: Default::default(), collector: None, graveyard: Vec::new() }
    }
    pub fn nt(&self) -> usize {
        self.ws.len()
    }
    pub fn reset(&mut self, label: &str, ntasks: usize, nested: Vec<Vec<&'static str>>) {
        if let Some(c) = self.collector.take() {
            self.graveyard.push(c);
        }
        let c = Arc::new(VCollector::new());
        *COLLECTOR.lock().unwrap() = Some(c.clone());
        self.collector = Some(c);
        for k in 0..MAXTASK {
            RAN[k].store(0, SeqCst);
            BAD_DATA[k].store(0, SeqCst);
        }
        *NESTED_PROG.lock().unwrap() = nested;
        EVENTS.lock().unwrap().clear();
        self.sc += 1;
        self.panics.clear();
        self.ps = (0..self.nt()).map(|_| PShadow::default()).collect();
        self.ts = (0..ntasks).map(|_| TShadow { st: "new", ..Default::default() }).collect();
        verif::set_managed(false);
        for t in 0..self.nt() {
            // registration runs unmanaged-atomic: start + finish
            self.ws[t].start(Op::Register);
            while self.ws[t].busy {
                self.ws[t].step();
            }
            let r = self.ws[t].take_result().unwrap().unwrap();
            self.ps[t].local_id = r.local_id;
            self.ps[t].has_handle = true;
        }
        self.record("reset", usize::MAX, label);
    }
    pub fn idle(&self, t: usize) -> bool {
        !self.ws[t].busy
    }
    fn active_cs(&self) -> Vec<(usize, usize)> {
        self.ps.iter().enumerate().filter(|(_, p)| p.ug > 0).map(|(i, p)| (i + 1, p.inst)).collect()
    }
    pub fn start(&mut self, t: usize, op: Op) {
        *self.op_hits.entry(op.name()).or_default() += 1;
        // ghost effects that belong to the *start* of a call
        self.ps[t].nonsole = false;
        match &op {
            Op::Unpin(i) => {
                self.ps[t].guards[*i] = false;
                self.ps[t].ug -= 1;
            }
            Op::React(_) | Op::ReactAfter(_, _) => {
                self.ps[t].nonsole = self.ps[t].ug > 1;
                if self.ps[t].ug == 1 {
                    self.ps[t].ug = 0; // a sole guard's critical section ends when the call starts
                }
            }
            Op::ReactAfterDrop(_, j) => {
                // the sibling guard dies inside the call; if only the reactivated guard is left, the critical
                // section ends here and a new one begins when the call returns
                self.ps[t].guards[*j] = false;
                self.ps[t].ug -= 1;
                self.ps[t].nonsole = self.ps[t].ug > 1;
                if self.ps[t].ug == 1 {
                    self.ps[t].ug = 0;
                }
            }
            Op::Defer { k, .. } => {
                self.ts[*k].st = "bag";
                self.ts[*k].act = self.active_cs();
                self.ts[*k].by = t + 1;
            }
            _ => {}
        }
        self.ps[t].cur = Some(op.clone());
        self.ps[t].nops += 1;
        self.ws[t].start(op.clone());
        self.started = Some(op.name());
        self.after(t, "start", &format!("{:?}", op));
    }
    pub fn step(&mut self, t: usize) {
        if !self.ws[t].busy {
            return;
        }
        let from = self.ws[t].at.unwrap_or(0);
        *self.site_hits.entry(from).or_default() += 1;
        self.ws[t].step();
        self.after(t, "step", &format!("{}", from));
    }
    pub fn finish(&mut self, t: usize) {
        let mut n = 0;
        while self.ws[t].busy {
            self.step(t);
            n += 1;
            if n > 100_000 {
                self.panics.push(format!("t{} does not finish", t));
                return;
            }
        }
    }
    pub fn run(&mut self, t: usize, op: Op) {
        self.start(t, op);
        self.finish(t);
    }
    pub fn run_to(&mut self, t: usize, target: u32) -> bool {
        let mut n = 0;
        while self.ws[t].busy && self.ws[t].at != Some(target) && n < 100_000 {
            self.step(t);
            n += 1;
        }
        self.ws[t].busy
    }
    fn after(&mut self, t: usize, kind: &str, what: &str) {
        let evs: Vec<_> = std::mem::take(&mut *EVENTS.lock().unwrap());
        self.last_events.clear();
        for (w, a, b) in evs {
            self.last_events.push(format!("{}:{}", w, a));
            match w.as_str() {
                "run" => {
                    if a < self.ts.len() {
                        self.ts[a].st = "done";
                    }
                    self.evbuf.push(format!("run:{}:by{}", a, b + 1));
                }
                "nested_pin_done" => {
                    let p = &mut self.ps[a];
                    if p.ug == 0 {
                        p.inst += 1;
                    }
                    p.ug += 1;
                    self.evbuf.push(format!("nested_pin:{}", a + 1));
                }
                "nested_unpin_start" => {
                    self.ps[a].ug -= 1;
                    self.evbuf.push(format!("nested_unpin:{}", a + 1));
                }
                "advance" => {
                    self.adv.push(b);
                    self.evbuf.push(format!("advance:{}", b));
                }
                "repin" => self.evbuf.push(format!("repin:{}", b)),
                "inside_reactivate_after" => {
                    let li = unsafe { verif::peek_local(self.ps[a].local_id) };
                    let live = self.ps[a].guards.iter().filter(|g| **g).count();
                    self.ra = vec![a + 1, li.pinned as usize, live];
                    self.evbuf.push(format!("inside_ra:{}", a + 1));
                }
                _ => {}
            }
        }
        if !self.ws[t].busy {
            if let Some(res) = self.ws[t].take_result() {
                let op = self.ps[t].cur.take();
                match res {
                    Ok(_) => match op {
                        Some(Op::Pin) => {
                            let p = &mut self.ps[t];
                            p.guards.push(true);
                            if p.ug == 0 {
                                p.inst += 1;
                            }
                            p.ug += 1;
                        }
                        Some(Op::React(_)) | Some(Op::ReactAfter(_, _)) | Some(Op::ReactAfterDrop(_, _)) => {
                            let p = &mut self.ps[t];
                            if p.ug == 0 {
                                p.ug = 1;
                                p.inst += 1;
                            }
                        }
                        Some(Op::HDrop) => {
                            self.ps[t].has_handle = false;
                        }
                        _ => {}
                    },
                    Err(m) => self.panics.push(format!("t{}: {}", t, m)),
                }
            }
            let p = &mut self.ps[t];
            if !p.has_handle && p.guards.iter().all(|g| !g) {
                p.gone = true;
            }
        }
        self.record(kind, t, what);
    }
    pub fn record(&mut self, kind: &str, t: usize, what: &str) {
        self.line += 1;
        let c = self.collector.as_ref().unwrap();
        let mut s = String::with_capacity(512);
        let _ = write!(
            s,
            "{{\"i\":{},\"sc\":{},\"k\":\"{}\",\"t\":{},\"what\":{:?},\"site\":{},\"nest\":{},\"mask\":{},\"opn\":\"{}\",\"gep\":{},\"thr\":[",
            self.line,
            self.sc,
            kind,
            if t == usize::MAX { 0 } else { t + 1 },
            what,
            if t == usize::MAX { 0 } else { self.ws[t].at.unwrap_or(0) },
            NESTED_PROG.lock().unwrap().iter().any(|p| !p.is_empty()),
            verif::class_mask(),
            self.started.take().unwrap_or(""),
            c.global_epoch()
        );
        for (i, p) in self.ps.iter().enumerate() {
            if i > 0 {
                s.push(',');
            }
            let li = if p.gone || p.local_id == 0 { verif::LocalInfo::default() } else { unsafe { verif::peek_local(p.local_id) } };
            let _ = write!(
                s,
                "{{\"lep\":{},\"pin\":{},\"gc\":{},\"hc\":{},\"bag\":{},\"col\":{},\"ug\":{},\"inst\":{},\"busy\":{},\"gone\":{},\"nonsole\":{},\"op\":\"{}\",\"site\":{}}}",
                li.epoch,
                li.pinned,
                li.guard_count,
                li.handle_count,
                li.bag_len,
                li.collecting,
                p.ug,
                p.inst,
                self.ws[i].busy,
                p.gone,
                p.nonsole && p.cur.is_some(),
                p.cur.as_ref().map(|o| o.name()).unwrap_or(""),
                self.ws[i].at.unwrap_or(0)
            );
        }
        let _ = write!(s, "],\"queue\":{:?},\"task\":[", unsafe { c.pending_bag_epochs() });
        for (k, tk) in self.ts.iter().enumerate() {
            if k > 0 {
                s.push(',');
            }
            let act: Vec<String> = tk.act.iter().map(|(p, i)| format!("[{},{}]", p, i)).collect();
            let _ = write!(s, "{{\"st\":\"{}\",\"ran\":{},\"bad\":{},\"act\":[{}]}}", tk.st, RAN[k].load(SeqCst), BAD_DATA[k].load(SeqCst), act.join(","));
        }
        let _ = write!(s, "],\"ra\":{:?},\"adv\":{:?},\"ev\":[", self.ra, self.adv);
        self.ra.clear();
        self.adv.clear();
        for (i, e) in self.evbuf.iter().enumerate() {
            if i > 0 {
                s.push(',');
            }
            let _ = write!(s, "{:?}", e);
        }
        s.push_str("]}");
        self.evbuf.clear();
        self.out.push(s);
    }
    /// All calls complete, all guards dropped, then `rounds` pin/flush/unpin rounds by every thread
    /// that still has a handle: every deferred function must have run exactly once by then.
    pub fn finisher(&mut self, rounds: usize) {
        let nt = self.nt();
        for t in 0..nt {
            self.finish(t);
        }
        if !self.panics.is_empty() {
            let m = self.panics.join("; ");
            self.record("abort", usize::MAX, &m);
            return;
        }
        verif::set_class_mask(0); // the finisher itself needs no preemption
        for t in 0..nt {
            let live: Vec<usize> = self.ps[t].guards.iter().enumerate().filter(|(_, g)| **g).map(|(i, _)| i).collect();
            for i in live.into_iter().rev() {
                self.run(t, Op::Unpin(i));
            }
        }
        for _ in 0..rounds {
            for t in 0..nt {
                if self.ps[t].has_handle {
                    self.run(t, Op::Pin);
                    let g = self.ps[t].guards.len() - 1;
                    self.run(t, Op::Flush(g));
                    self.run(t, Op::Unpin(g));
                }
            }
            if self.ts.iter().enumerate().all(|(k, tk)| tk.st == "new" || RAN[k].load(SeqCst) >= 1) {
                break;
            }
        }
        verif::set_class_mask(site::CLASS_EBR);
        self.record("fin", usize::MAX, "end");
    }
    pub fn quit(&mut self) {
        for w in self.ws.iter_mut() {
            w.quit();
        }
    }
}

// ------------------------------------------------------------------------------------------
// scenarios

/// Random programs + random schedule with preemption at every EBR site.
pub fn run_random(ctl: &mut Ctl, rng: &mut Rng, label: &str, max_ops: usize, exits: bool) {
    let nt = ctl.nt();
    let ntasks = 6;
    let nested: Vec<Vec<&'static str>> = (0..ntasks)
        .map(|_| match rng.below(5) {
            0 => vec!["pin", "flush", "flush", "unpin"],
            1 => vec!["pin", "unpin"],
            _ => vec![],
        })
        .collect();
    ctl.reset(label, ntasks, nested);
    let mut next_task = 0;
    let mut cur = rng.below(nt);
    let p_stay = [20u32, 50, 80][rng.below(3)];
    let mut guard = 0;
    loop {
        guard += 1;
        if guard > 6000 || !ctl.panics.is_empty() {
            break;
        }
        let enabled: Vec<usize> = (0..nt).filter(|&t| !ctl.idle(t) || ctl.ps[t].nops < max_ops).collect();
        if enabled.is_empty() {
            break;
        }
        if !enabled.contains(&cur) || !rng.chance(p_stay, 100) {
            cur = *rng.pick(&enabled);
        }
        if !ctl.idle(cur) {
            ctl.step(cur);
            continue;
        }
        let p = &ctl.ps[cur];
        let live: Vec<usize> = p.guards.iter().enumerate().filter(|(_, g)| **g).map(|(i, _)| i).collect();
        let mut cands: Vec<Op> = Vec::new();
        if p.has_handle && live.len() < 3 {
            cands.push(Op::Pin);
            cands.push(Op::Pin);
        }
        if !live.is_empty() {
            let g = *rng.pick(&live);
            cands.push(Op::Unpin(g));
            cands.push(Op::Unpin(*live.last().unwrap()));
            cands.push(Op::Flush(g));
            cands.push(Op::Flush(g));
            cands.push(Op::Advance(g));
            // (reactivation without the thread's handle is legal since the repair of finding j: the guard keeps
            // the participant alive)
            cands.push(Op::React(g));
            cands.push(Op::ReactAfter(g, rng.chance(1, 3)));
            if live.len() >= 2 {
                let h = *live.iter().find(|x| **x != g).unwrap();
                cands.push(Op::ReactAfterDrop(g, h));
            }
            if next_task < ntasks {
                cands.push(Op::Defer { g, k: next_task, size: rng.below(NSIZE) });
                cands.push(Op::Defer { g, k: next_task, size: rng.below(NSIZE) });
            }
        }
        if exits && p.has_handle && rng.chance(1, 12) && (0..nt).filter(|&t| ctl.ps[t].has_handle).count() > 1 {
            cands.push(Op::HDrop);
        }
        if cands.is_empty() {
            ctl.ps[cur].nops += 1;
            continue;
        }
        let op = rng.pick(&cands).clone();
        if let Op::Defer { .. } = op {
            next_task += 1;
        }
        ctl.start(cur, op);
    }
    ctl.finisher(12);
}

fn cycle(ctl: &mut Ctl, t: usize) {
    ctl.run(t, Op::Pin);
    let g = ctl.ps[t].guards.len() - 1;
    ctl.run(t, Op::Flush(g));
    ctl.run(t, Op::Unpin(g));
}
fn step_until(ctl: &mut Ctl, t: usize, ev: &str) -> bool {
    let mut n = 0;
    while !ctl.idle(t) && n < 20_000 {
        ctl.step(t);
        if ctl.last_events.iter().any(|e| e.starts_with(ev)) {
            return true;
        }
        n += 1;
    }
    false
}

/// Finding w / mutant `RepinWithNestedGuard`: a guard created inside a deferred function that runs
/// during collection must keep protecting what it saw across flushes.
pub fn nested_repin(ctl: &mut Ctl, nflush: usize) {
    let mut nested = vec!["pin"];
    for _ in 0..nflush {
        nested.push("flush");
    }
    nested.push("unpin");
    ctl.reset(&format!("dir:nested_repin:{}", nflush), 2, vec![nested, vec![]]);
    ctl.run(0, Op::Pin);
    ctl.run(0, Op::Defer { g: 0, k: 0, size: 0 });
    ctl.run(0, Op::Flush(0));
    ctl.run(0, Op::Unpin(0));
    // t0 keeps cycling until its own collection pops task 0, which pins inside the collection
    let mut inside = false;
    for _ in 0..8 {
        ctl.run(0, Op::Pin);
        let g = ctl.ps[0].guards.len() - 1;
        ctl.run(0, Op::Flush(g));
        ctl.start(0, Op::Unpin(g));
        if ctl.last_events.iter().any(|e| e.starts_with("nested_pin_done")) || step_until(ctl, 0, "nested_pin_done") {
            inside = true;
            break;
        }
    }
    if !inside {
        ctl.finisher(10);
        return;
    }
    // t1 retires something while the nested critical section is active
    ctl.run(1, Op::Pin);
    let g1 = ctl.ps[1].guards.len() - 1;
    ctl.run(1, Op::Defer { g: g1, k: 1, size: 0 });
    ctl.run(1, Op::Flush(g1));
    ctl.run(1, Op::Unpin(g1));
    for _ in 0..nflush {
        step_until(ctl, 0, "nested_flush_done");
        cycle(ctl, 1);
        cycle(ctl, 1);
    }
    ctl.finisher(10);
}

/// Mutant `PinNoRevalidate`/`PinLagOne`: a pinner preempted between reading the global epoch and
/// publishing it, while the others advance `k` times.
pub fn pin_vs_advance(ctl: &mut Ctl, k: usize, at: u32) {
    ctl.reset(&format!("dir:pin_vs_advance:{}:{}", k, at), 2, vec![vec![], vec![]]);
    ctl.start(0, Op::Pin);
    ctl.run_to(0, at);
    for _ in 0..k {
        cycle(ctl, 1);
    }
    ctl.finish(0); // the pin completes: it must be pinned in the current epoch
    ctl.run(1, Op::Pin);
    let g1 = ctl.ps[1].guards.len() - 1;
    ctl.run(1, Op::Defer { g: g1, k: 0, size: 0 });
    ctl.run(1, Op::Flush(g1));
    ctl.run(1, Op::Unpin(g1));
    for _ in 0..5 {
        cycle(ctl, 1);
        if ctl.nt() > 2 {
            cycle(ctl, 2);
        }
    }
    ctl.finisher(10);
}

/// Two advancers interleaved at every scan/store position, one lagging pinned participant.
pub fn two_advancers(ctl: &mut Ctl, a: usize, b: usize) {
    ctl.reset(&format!("dir:two_advancers:{}:{}", a, b), 1, vec![vec![]]);
    ctl.run(0, Op::Pin);
    ctl.run(0, Op::Defer { g: 0, k: 0, size: 0 });
    ctl.run(1, Op::Pin);
    let g1 = ctl.ps[1].guards.len() - 1;
    let third = ctl.nt() > 2;
    if third {
        ctl.run(2, Op::Pin);
    }
    ctl.start(1, Op::Advance(g1));
    for _ in 0..a {
        ctl.step(1);
    }
    if third {
        let g2 = ctl.ps[2].guards.len() - 1;
        ctl.start(2, Op::Advance(g2));
        for _ in 0..b {
            ctl.step(2);
        }
        ctl.finish(1);
        ctl.finish(2);
        ctl.run(2, Op::Advance(g2));
    }
    ctl.finish(1);
    ctl.run(1, Op::Advance(g1));
    ctl.run(1, Op::Advance(g1));
    ctl.finisher(10);
}

/// C15: a thread exits (handle dropped) with `fill` deferred functions in its bag, at several
/// points relative to flush; closures of every shape; a survivor must run each exactly once.
pub fn exit_with_garbage(ctl: &mut Ctl, fill: usize, flush_first: bool, guard_outlives: bool) {
    ctl.reset(&format!("dir:exit_with_garbage:{}:{}:{}", fill, flush_first, guard_outlives), fill.min(MAXTASK - 1), vec![]);
    verif::set_class_mask(0);
    ctl.run(0, Op::Pin);
    for k in 0..fill.min(MAXTASK - 1) {
        ctl.run(0, Op::Defer { g: 0, k, size: k });
    }
    if flush_first {
        ctl.run(0, Op::Flush(0));
    }
    verif::set_class_mask(site::CLASS_EBR);
    if guard_outlives {
        ctl.run(0, Op::HDrop);
        ctl.run(0, Op::Unpin(0));
    } else {
        ctl.run(0, Op::Unpin(0));
        ctl.run(0, Op::HDrop);
    }
    ctl.finisher(14);
}

/// C16: every guard program of length <= `len` over pin / drop(i) / reactivate(i) /
/// reactivate_after(i, ok|panic) / flush on one participant, an observer pinned throughout.
pub fn guard_programs(ctl: &mut Ctl, len: usize) -> usize {
    // enumerate programs as sequences of abstract calls; guards are named by creation order
    let mut progs: Vec<Vec<(u8, usize)>> = vec![vec![]];
    let mut all = Vec::new();
    for _ in 0..len {
        let mut next = Vec::new();
        for p in &progs {
            // live guards after p
            let mut live: Vec<usize> = Vec::new();
            let mut created = 0;
            for (c, i) in p {
                match c {
                    0 => {
                        live.push(created);
                        created += 1;
                    }
                    1 => live.retain(|x| x != i),
                    c if *c >= 5 => live.retain(|x| *x != (*c - 5) as usize),
                    _ => {}
                }
            }
            if live.len() < 3 {
                let mut q = p.clone();
                q.push((0, 0));
                next.push(q);
            }
            for &g in &live {
                for c in 1..=4u8 {
                    let mut q = p.clone();
                    q.push((c, g));
                    next.push(q);
                }
                // reactivate_after(g) whose closure drops the sibling guard h (encoded as 5 + h)
                for &h in &live {
                    if h != g {
                        let mut q = p.clone();
                        q.push((5 + h as u8, g));
                        next.push(q);
                    }
                }
            }
        }
        all.extend(next.iter().cloned());
        progs = next;
    }
    let n = all.len();
    for (idx, p) in all.iter().enumerate() {
        ctl.reset(&format!("dir:guard_program:{}", idx), 1, vec![vec![]]);
        for (c, i) in p {
            match c {
                0 => ctl.run(0, Op::Pin),
                1 => ctl.run(0, Op::Unpin(*i)),
                2 => ctl.run(0, Op::React(*i)),
                3 => ctl.run(0, Op::ReactAfter(*i, false)),
                4 => ctl.run(0, Op::ReactAfter(*i, true)),
                c => ctl.run(0, Op::ReactAfterDrop(*i, (*c - 5) as usize)),
            }
            cycle(ctl, 1); // the observer tries to advance the epoch after every call
        }
        ctl.finisher(2);
    }
    n
}

/// Mutant `RepinNonSole`: reactivate() on an inner guard must not end the outer critical section.
pub fn react_inner(ctl: &mut Ctl, rounds: usize, after: bool) {
    ctl.reset(&format!("dir:react_inner:{}:{}", rounds, after), 1, vec![vec![]]);
    ctl.run(0, Op::Pin);
    ctl.run(0, Op::Pin);
    ctl.run(1, Op::Pin);
    let g1 = ctl.ps[1].guards.len() - 1;
    ctl.run(1, Op::Defer { g: g1, k: 0, size: 0 });
    ctl.run(1, Op::Flush(g1));
    ctl.run(1, Op::Unpin(g1));
    for _ in 0..rounds {
        if after {
            ctl.run(0, Op::ReactAfter(1, false));
        } else {
            ctl.run(0, Op::React(1));
        }
        cycle(ctl, 1);
    }
    ctl.finisher(10);
}

/// Mutant `AdvanceSkipsSelf`: a participant that lags one epoch behind must not advance the clock itself.
pub fn self_advance(ctl: &mut Ctl, rounds: usize) {
    ctl.reset(&format!("dir:self_advance:{}", rounds), 1, vec![vec![]]);
    ctl.run(0, Op::Pin);
    ctl.run(1, Op::Pin);
    let g1 = ctl.ps[1].guards.len() - 1;
    ctl.run(1, Op::Defer { g: g1, k: 0, size: 0 });
    ctl.run(1, Op::Flush(g1));
    ctl.run(1, Op::Unpin(g1)); // may advance once: t0 is pinned in the current epoch
    for _ in 0..rounds {
        ctl.run(0, Op::Advance(0)); // t0 lags by one: must be refused by its own announcement
    }
    cycle(ctl, 1);
    cycle(ctl, 1);
    ctl.finisher(10);
}

/// Mutant `PinLagOne`: the pinner reads the epoch; one advance completes; a second advancer scans
/// past the still unannounced pinner and stands before its store; the pinner publishes and validates.
pub fn pin_vs_two_advances(ctl: &mut Ctl, at: u32) {
    ctl.reset(&format!("dir:pin_vs_two_advances:{}", at), 1, vec![vec![]]);
    ctl.start(0, Op::Pin);
    ctl.run_to(0, site::E_PIN_PUBLISH); // has read the epoch, not yet announced
    cycle(ctl, 1); // first advance completes
    ctl.run(1, Op::Pin);
    let g1 = ctl.ps[1].guards.len() - 1;
    ctl.start(1, Op::Advance(g1));
    ctl.run_to(1, at); // second advancer: after (part of) its scan
    ctl.finish(0); // pinner announces and validates
    ctl.finish(1); // second advancer stores
    ctl.run(1, Op::Defer { g: g1, k: 0, size: 0 });
    ctl.run(1, Op::Flush(g1));
    ctl.run(1, Op::Unpin(g1));
    for _ in 0..4 {
        cycle(ctl, 1);
    }
    ctl.finisher(10);
}

/// C18 in its use by try_advance: a scan that stalls (its predecessor entry was deleted under it)
/// must give up, otherwise the epoch advances past a pinned participant it never visited.
/// Needs 4 threads: registry order is head -> t3 (scanner) -> t2 -> t1 -> t0 (victim).
pub fn stalled_scan(ctl: &mut Ctl, pause_at_load: usize) {
    ctl.reset(&format!("dir:stalled_scan:{}", pause_at_load), 1, vec![vec![]]);
    if ctl.nt() < 4 {
        return;
    }
    verif::set_class_mask(site::CLASS_EBR | site::CLASS_LIST);
    ctl.run(0, Op::Pin); // the victim, pinned in the current epoch
    cycle(ctl, 3); // the scanner advances once: the victim now lags by one
    ctl.run(3, Op::Pin);
    let g = ctl.ps[3].guards.len() - 1;
    ctl.start(3, Op::Advance(g));
    // stop the scanner right before its k-th load of an entry's `next`
    let mut loads = 0;
    let mut n = 0;
    while !ctl.idle(3) && n < 10_000 {
        if ctl.ws[3].at == Some(site::L_IT_NEXT_LOAD) {
            loads += 1;
            if loads == pause_at_load {
                break;
            }
        }
        ctl.step(3);
        n += 1;
    }
    // the two participants around the scanner's position exit (their entries get marked)
    ctl.run(2, Op::HDrop);
    ctl.run(1, Op::HDrop);
    ctl.finish(3);
    ctl.run(3, Op::Advance(g));
    ctl.run(3, Op::Unpin(g));
    verif::set_class_mask(site::CLASS_EBR);
    ctl.finisher(6);
}

/// Two collectors race for an expired bag at the head of the global queue while the bag behind it is
/// fresh (deferred inside a critical section that is still active).  The loser of the race must look
/// at the new head again: taking it unconditionally runs a deferred function too early.
/// Needs 3 threads: t0 reads, t1 and t2 collect.  `stop_at` is where the first collector is preempted.
pub fn two_collectors(ctl: &mut Ctl, stop_at: u32, advance_between: bool) {
    ctl.reset(&format!("dir:two_collectors:{}:{}", stop_at, advance_between), 2, vec![vec![], vec![]]);
    if ctl.nt() < 3 {
        return;
    }
    ctl.run(1, Op::Pin);
    let g = ctl.ps[1].guards.len() - 1;
    ctl.run(1, Op::Defer { g, k: 0, size: 0 });
    ctl.run(1, Op::Flush(g)); // bag 0, sealed now
    ctl.run(1, Op::Unpin(g)); // its collection finds nothing expired
    for _ in 0..3 {
        // advance without collecting, so that bag 0 stays where it is
        ctl.run(1, Op::Pin);
        let g = ctl.ps[1].guards.len() - 1;
        ctl.run(1, Op::Advance(g));
        ctl.run(1, Op::Unpin(g));
    }
    ctl.run(0, Op::Pin); // the reader
    ctl.run(2, Op::Pin);
    let g2 = ctl.ps[2].guards.len() - 1;
    ctl.run(2, Op::Defer { g: g2, k: 1, size: 0 });
    ctl.run(2, Op::Flush(g2)); // bag 1, fresh, behind bag 0
    verif::set_class_mask(site::CLASS_EBR | site::CLASS_QUEUE);
    ctl.start(2, Op::Collect(g2));
    ctl.run_to(2, stop_at); // has seen bag 0 expired, is about to take it
    ctl.run(1, Op::Pin);
    let g1 = ctl.ps[1].guards.len() - 1;
    ctl.run(1, Op::Collect(g1)); // takes bag 0 and stops at bag 1
    if advance_between {
        ctl.run(1, Op::Advance(g1));
    }
    ctl.finish(2); // loses the race for bag 0
    verif::set_class_mask(site::CLASS_EBR);
    ctl.run(1, Op::Unpin(g1));
    ctl.run(2, Op::Unpin(g2));
    ctl.finisher(10);
}

pub fn run_family(ctl: &mut Ctl, fam: &str) -> usize {
    let mut n = 0;
    let all = fam == "all";
    if all || fam == "c13" || fam == "c16" {
        for nf in [1, 3, 4] {
            nested_repin(ctl, nf);
            n += 1;
        }
    }
    if all || fam == "c13" || fam == "c16" {
        for r in [1, 4, 5] {
            react_inner(ctl, r, false);
            react_inner(ctl, r, true);
            n += 2;
        }
    }
    if all || fam == "c13" || fam == "c17" {
        for at in [site::Q_POP_NEXT_LOAD, site::Q_POP_HEAD_CAS] {
            for ab in [false, true] {
                two_collectors(ctl, at, ab);
                n += 1;
            }
        }
    }
    if all || fam == "c13" || fam == "c14" {
        for r in [1, 4, 5] {
            self_advance(ctl, r);
            n += 1;
        }
        for at in [site::E_ADV_SCAN, site::E_ADV_STORE] {
            pin_vs_two_advances(ctl, at);
            n += 1;
        }
        for k in 1..=3 {
            for at in [site::E_PIN_PUBLISH, site::E_PIN_VALIDATE] {
                pin_vs_advance(ctl, k, at);
                n += 1;
            }
        }
        for a in 0..6 {
            for b in 0..6 {
                two_advancers(ctl, a, b);
                n += 1;
            }
        }
    }
    if fam == "c18" {
        for k in 1..=5 {
            stalled_scan(ctl, k);
            n += 1;
        }
    }
    if all || fam == "c15" {
        for fill in [0, 1, 2, 9, 10, 11, 20, 63] {
            for ff in [false, true] {
                for go in [false, true] {
                    exit_with_garbage(ctl, fill, ff, go);
                    n += 1;
                }
            }
        }
    }
    if all || fam == "c16" {
        n += guard_programs(ctl, 4);
    }
    n
}
