//! Vector replay for the sequential sub-models (C11, C12, C19 and the cascade decision):
//! the harness enumerates inputs, calls the REAL functions (crate-private helpers through the
//! cfg(circ_verif) shim, or the public API on real objects) and writes one JSON row per call;
//! TLC judges every row against Bits.tla / PtrOrd.tla.
use std::collections::hash_map::DefaultHasher;
use std::fmt::Write as _;
use std::hash::{Hash, Hasher};
use std::sync::atomic::Ordering::SeqCst;

use circ::verif::{self, Tagged};
use circ::{AtomicRc, Rc, RcObject, Snapshot};

use crate::sched::Rng;

fn limbs(x: u64) -> String {
    format!("[{},{},{},{}]", x & 0xffff, (x >> 16) & 0xffff, (x >> 32) & 0xffff, (x >> 48) & 0xffff)
}

// ------------------------------------------------------------------------------------------
// count word + modular comparison (C12)

pub fn bits_rows(seed: u64, nrand: usize) -> Vec<String> {
    let mut out = Vec::new();
    let (count, weak_count) = verif::state_units();
    out.push(format!("{{\"fn\":\"st_units\",\"w\":{},\"r\":{}}}", limbs(count), limbs(weak_count)));
    let sw = 29u32;
    let counts: Vec<u64> = vec![0, 1, 2, 3, (1 << 28) - 1, 1 << 28, (1 << 28) + 1, (1 << sw) - 2, (1 << sw) - 1];
    let mut words: Vec<u64> = Vec::new();
    for &e in &[0u64, 1, 7, 8, 15] {
        for dk in 0..4u64 {
            for &w in &counts {
                for &s in &counts {
                    words.push((e << 60) | ((dk >> 1) << 59) | ((dk & 1) << 58) | (w << sw) | s);
                }
            }
        }
    }
    let mut rng = Rng::new(seed);
    for _ in 0..nrand {
        words.push(rng.next());
    }
    for a in [0u32, 1, 2, 3, 1 << 28, (1 << 29) - 1] {
        out.push(format!("{{\"fn\":\"st_initial\",\"a\":{},\"r\":{}}}", a, limbs(verif::state_initial(a))));
    }
    for (i, &w) in words.iter().enumerate() {
        let (s, wk, d, k, e) = verif::state_decode(w);
        out.push(format!("{{\"fn\":\"st_decode\",\"w\":{},\"r\":[{},{},{},{},{}]}}", limbs(w), s, wk, d as u8, k as u8, e));
        // argument values rotate so that the row count stays linear in the number of words
        let eps = [0usize, 1, 15, 16, 17, 31, 1_000_003, (1 << 30) + 5];
        let ep = eps[i % eps.len()];
        out.push(format!("{{\"fn\":\"st_with_epoch\",\"w\":{},\"a\":{},\"r\":{}}}", limbs(w), ep, limbs(verif::state_with_epoch(w, ep))));
        let vals = [0u32, 1, 2, 5, 1 << 20];
        let v = vals[i % vals.len()];
        out.push(format!("{{\"fn\":\"st_add_strong\",\"w\":{},\"a\":{},\"r\":{}}}", limbs(w), v, limbs(verif::state_add_strong(w, v))));
        out.push(format!("{{\"fn\":\"st_add_weak\",\"w\":{},\"a\":{},\"r\":{}}}", limbs(w), v, limbs(verif::state_add_weak(w, v))));
        if s >= v {
            out.push(format!("{{\"fn\":\"st_sub_strong\",\"w\":{},\"a\":{},\"r\":{}}}", limbs(w), v, limbs(verif::state_sub_strong(w, v))));
        }
        let b = i % 2 == 0;
        out.push(format!("{{\"fn\":\"st_with_destructed\",\"w\":{},\"a\":{},\"r\":{}}}", limbs(w), b as u8, limbs(verif::state_with_destructed(w, b))));
        out.push(format!("{{\"fn\":\"st_with_weaked\",\"w\":{},\"a\":{},\"r\":{}}}", limbs(w), b as u8, limbs(verif::state_with_weaked(w, b))));
    }
    // modular comparison: every current epoch 0..95 and around larger multiples of 16, every true age 0..64
    let mut curs: Vec<isize> = (0..96).collect();
    for base in [1 << 10, 1 << 16, 1 << 20, (1 << 30) - 32] {
        for d in -3..=18 {
            curs.push(base + d);
        }
    }
    for &cur in &curs {
        for age in 0..=64isize {
            if age > cur {
                continue;
            }
            let stamp = (cur - age) % 16;
            let r = verif::modular_le(cur + 1, stamp, cur - 3);
            out.push(format!("{{\"fn\":\"md_old\",\"cur\":{},\"age\":{},\"stamp\":{},\"r\":{}}}", cur, age, stamp, r as u8));
        }
    }
    for _ in 0..(nrand.max(200)) {
        let cur = (rng.next() % (1 << 20)) as isize;
        let max = cur + 1;
        let a = (rng.next() % 16) as isize;
        let b = (rng.next() % 16) as isize;
        let c = (rng.next() % 16) as isize;
        out.push(format!("{{\"fn\":\"md_trans\",\"max\":{},\"a\":{},\"r\":{}}}", max, a, verif::modular_trans(max, a)));
        out.push(format!("{{\"fn\":\"md_le\",\"max\":{},\"a\":{},\"b\":{},\"r\":{}}}", max, a, cur - 3, verif::modular_le(max, a, cur - 3) as u8));
        out.push(format!("{{\"fn\":\"md_max3\",\"max\":{},\"a\":{},\"b\":{},\"c\":{},\"r\":{}}}", max, a, b, c, verif::modular_max(max, &[a, b, c])));
        let t = verif::modular_trans(max, a);
        out.push(format!("{{\"fn\":\"md_inver\",\"max\":{},\"a\":{},\"r\":{}}}", max, t, verif::modular_inver(max, t)));
    }
    out
}

// ------------------------------------------------------------------------------------------
// tagged pointers (C11), every alignment

#[repr(align(1))]
struct A1(#[allow(dead_code)] u8);
#[repr(align(2))]
struct A2(#[allow(dead_code)] u8);
#[repr(align(4))]
struct A4(#[allow(dead_code)] u8);
#[repr(align(8))]
struct A8(#[allow(dead_code)] u8);
#[repr(align(16))]
struct A16(#[allow(dead_code)] u8);
#[repr(align(128))]
struct A128(#[allow(dead_code)] u8);

fn tagged_for<T>(k: u32, rng: &mut Rng, nrand: usize, out: &mut Vec<String>) {
    let a: u64 = 1 << k;
    let low = a - 1;
    let mk = |w: u64| -> Tagged<T> { Tagged::from(w as usize as *mut T) };
    let raw = |t: Tagged<T>| -> u64 { unsafe { std::mem::transmute_copy::<Tagged<T>, usize>(&t) as u64 } };
    let mut addrs: Vec<u64> = vec![0, a, 2 * a, 3 * a, 1 << 20, (1 << 32) - a, 1 << 32, (1 << 47) - a, (1u64 << 60) - a];
    for _ in 0..nrand {
        addrs.push((rng.next() & ((1u64 << 60) - 1)) & !low);
    }
    let tags: Vec<u64> = vec![0, 1, low, a, a + 1, (2 * a).wrapping_sub(1), 7, 8, 9, 127, 128, u64::MAX, 0x5555_5555_5555_5555, 0xAAAA_AAAA_AAAA_AAAA];
    let tss: Vec<u64> = vec![0, 1, 7, 8, 15];
    for (i, &addr) in addrs.iter().enumerate() {
        for (j, &tg) in tags.iter().enumerate() {
            let ts = tss[(i + j) % tss.len()];
            let w = addr | (tg & low) | (ts << 60);
            let p = mk(w);
            out.push(format!("{{\"fn\":\"tg_tag\",\"k\":{},\"w\":{},\"r\":{}}}", k, limbs(w), p.tag()));
            out.push(format!("{{\"fn\":\"tg_high_tag\",\"k\":{},\"w\":{},\"r\":{}}}", k, limbs(w), p.high_tag()));
            out.push(format!("{{\"fn\":\"tg_as_raw\",\"k\":{},\"w\":{},\"r\":{}}}", k, limbs(w), limbs(p.as_raw() as usize as u64)));
            out.push(format!("{{\"fn\":\"tg_is_null\",\"k\":{},\"w\":{},\"r\":{}}}", k, limbs(w), p.is_null() as u8));
            let g = tags[(i * 3 + j * 5 + 1) % tags.len()];
            out.push(format!("{{\"fn\":\"tg_with_tag\",\"k\":{},\"w\":{},\"g\":{},\"r\":{}}}", k, limbs(w), limbs(g), limbs(raw(p.with_tag(g as usize)))));
            let t = [0u64, 1, 15, 16, 17, u64::MAX][(i + j) % 6];
            out.push(format!("{{\"fn\":\"tg_with_high_tag\",\"k\":{},\"w\":{},\"g\":{},\"r\":{}}}", k, limbs(w), limbs(t), limbs(raw(p.with_high_tag(t as usize)))));
            // ptr_eq against: other timestamp, other tag, other address
            let others = [addr | (tg & low) | (((ts + 5) % 16) << 60), addr | ((tg.wrapping_add(1)) & low) | (ts << 60), (addr ^ a) | (tg & low) | (ts << 60)];
            let o = others[(i + j) % 3];
            out.push(format!("{{\"fn\":\"tg_ptr_eq\",\"k\":{},\"w\":{},\"g\":{},\"r\":{}}}", k, limbs(w), limbs(o), p.ptr_eq(mk(o)) as u8));
        }
    }
}

pub fn tagged_rows(seed: u64, nrand: usize) -> Vec<String> {
    let mut out = Vec::new();
    let mut rng = Rng::new(seed ^ 0x7a66);
    tagged_for::<A1>(0, &mut rng, nrand, &mut out);
    tagged_for::<A2>(1, &mut rng, nrand, &mut out);
    tagged_for::<A4>(2, &mut rng, nrand, &mut out);
    tagged_for::<A8>(3, &mut rng, nrand, &mut out);
    tagged_for::<A16>(4, &mut rng, nrand, &mut out);
    tagged_for::<A128>(7, &mut rng, nrand, &mut out);
    out
}

// ------------------------------------------------------------------------------------------
// public API on real objects of several alignments (C11)

thread_local! {
    /// result of the exclusive-accessor comparison of the row being built (keeps `row`'s signature)
    static MUT_OK: std::cell::Cell<bool> = std::cell::Cell::new(true);
}

macro_rules! api_node {
    ($name:ident, $align:literal) => {
        #[repr(align($align))]
        pub struct $name {
            id: u64,
            next: AtomicRc<$name>,
        }
        unsafe impl RcObject for $name {
            fn pop_edges(&mut self, out: &mut Vec<Rc<Self>>) {
                out.push(self.next.take());
            }
        }
        impl $name {
            fn rows(k: u32, out: &mut Vec<String>) {
                let id = 0xC0FFEE00 + $align;
                let rc = Rc::new($name { id, next: AtomicRc::null() });
                let cell: AtomicRc<$name> = AtomicRc::null();
                let a: u64 = 1 << k;
                let tags: Vec<u64> = vec![0, 1, a - 1, a, a + 1, 2 * a - 1, 7, 8, 9, 15, 16, 127, 128, u64::MAX, 0x5555_5555_5555_5555];
                let base_fmt = format!("{:p}", rc);
                for _round in 0..16 {
                    verif::force_advance();
                    let g = circ::cs();
                    cell.store(rc.clone(), SeqCst, &g);
                    let s = cell.load(SeqCst, &g);
                    let ts_expected = verif::global_epoch() % 16;
                    let s0 = rc.snapshot(&g);
                    for &tg in &tags {
                        // Snapshot
                        let t = s.with_tag(tg as usize);
                        let (_, _, ts) = verif::split_word::<$name>(verif::snapshot_word(&t));
                        // the exclusive accessors must reach the same address as the shared ones (only the address is compared)
                        let shared = t.as_ref().map(|x| x as *const $name as usize).unwrap_or(0);
                        let mut_ok = unsafe { t.deref_mut() as *mut $name as usize == shared && t.as_mut().map(|x| x as *mut $name as usize).unwrap_or(0) == shared };
                        MUT_OK.with(|m| m.set(mut_ok));
                        Self::row(out, "sn", k, tg, t.tag(), t.as_ref().map(|x| x.id == id).unwrap_or(false), t.is_null(),
                            Snapshot::<$name>::null().with_tag(tg as usize).is_null(), s0.with_tag(tg as usize).ptr_eq(t), s.ptr_eq(t), s.tag(),
                            format!("{:p}", t) == format!("{:p}", s0.with_tag(tg as usize)) && format!("{:p}", s) == base_fmt, ts, ts_expected);
                        // Rc carrying the timestamp of the link it was swapped out of
                        let mut r = cell.swap(rc.clone(), SeqCst).with_tag(tg as usize);
                        let (_, _, ts) = verif::split_word::<$name>(verif::rc_word(&r));
                        let shared = r.as_ref().map(|x| x as *const $name as usize).unwrap_or(0);
                        let mut_ok = unsafe { r.deref_mut() as *mut $name as usize == shared && r.as_mut().map(|x| x as *mut $name as usize).unwrap_or(0) == shared };
                        MUT_OK.with(|m| m.set(mut_ok));
                        Self::row(out, "rc", k, tg, r.tag(), r.as_ref().map(|x| x.id == id).unwrap_or(false), r.is_null(),
                            Rc::<$name>::null().with_tag(tg as usize).is_null(), rc.clone().with_tag(tg as usize).ptr_eq(&r), rc.ptr_eq(&r), rc.tag(),
                            format!("{:p}", r) == format!("{:p}", rc.clone().with_tag(tg as usize)), ts, ts_expected);
                        // Weak made from that Rc
                        let w = r.downgrade();
                        let w0 = rc.downgrade().with_tag(tg as usize);
                        let (_, _, ts) = verif::split_word::<$name>(verif::weak_word(&w));
                        let up = w.upgrade();
                        MUT_OK.with(|m| m.set(true));
                        Self::row(out, "wk", k, tg, w.tag(), up.as_ref().and_then(|x| x.as_ref()).map(|x| x.id == id).unwrap_or(false), w.is_null(),
                            circ::Weak::<$name>::null().with_tag(tg as usize).is_null(), w0.ptr_eq(&w), rc.downgrade().ptr_eq(&w), 0,
                            format!("{:p}", w) == format!("{:p}", w0), ts, ts_expected);
                    }
                    drop(g);
                }
                let g = circ::cs();
                cell.store(Rc::null(), SeqCst, &g);
            }
            #[allow(clippy::too_many_arguments)]
            fn row(out: &mut Vec<String>, h: &str, k: u32, g: u64, tag: usize, same: bool, null: bool, nullnull: bool, pe_ts: bool, pe_tag: bool, tag0: usize, fmt: bool, ts: usize, tse: usize) {
                out.push(format!(
                    "{{\"fn\":\"api\",\"h\":\"{}\",\"k\":{},\"g\":{},\"tag\":{},\"same_mut\":{},\"same_obj\":{},\"null\":{},\"nullnull\":{},\"ptr_eq_ts\":{},\"ptr_eq_tag\":{},\"tag0\":{},\"fmt_same\":{},\"ts\":{},\"ts_expected\":{}}}",
                    h, k, limbs(g), tag, MUT_OK.with(|m| m.get()) as u8, same as u8, null as u8, nullnull as u8, pe_ts as u8, pe_tag as u8, tag0, fmt as u8, ts, tse
                ));
            }
        }
    };
}
api_node!(N8, 8);
api_node!(N16, 16);
api_node!(N128, 128);

pub fn api_rows() -> Vec<String> {
    let mut out = Vec::new();
    N8::rows(3, &mut out);
    N16::rows(4, &mut out);
    N128::rows(7, &mut out);
    out
}

// ------------------------------------------------------------------------------------------
// Eq / Ord / Hash (C19)

pub struct V {
    val: i32,
    next: AtomicRc<V>,
}
unsafe impl RcObject for V {
    fn pop_edges(&mut self, out: &mut Vec<Rc<Self>>) {
        out.push(self.next.take());
    }
}
impl PartialEq for V {
    fn eq(&self, o: &Self) -> bool {
        self.val == o.val
    }
}
impl Eq for V {}
impl PartialOrd for V {
    fn partial_cmp(&self, o: &Self) -> Option<std::cmp::Ordering> {
        Some(self.cmp(o))
    }
}
impl Ord for V {
    fn cmp(&self, o: &Self) -> std::cmp::Ordering {
        self.val.cmp(&o.val)
    }
}
impl Hash for V {
    fn hash<H: Hasher>(&self, h: &mut H) {
        self.val.hash(h)
    }
}
fn h<T: Hash>(x: &T) -> u64 {
    let mut s = DefaultHasher::new();
    x.hash(&mut s);
    s.finish()
}
fn ordn(o: Option<std::cmp::Ordering>) -> i32 {
    match o {
        None => 2,
        Some(std::cmp::Ordering::Less) => -1,
        Some(std::cmp::Ordering::Equal) => 0,
        Some(std::cmp::Ordering::Greater) => 1,
    }
}

pub fn ptrord_rows() -> Vec<String> {
    let mut out = Vec::new();
    let mk = |v: i32| Rc::new(V { val: v, next: AtomicRc::null() });
    let o1 = mk(5);
    let o2 = mk(5);
    let o3 = mk(9);
    let o4 = mk(2);
    let cell: AtomicRc<V> = AtomicRc::null();
    for _ in 0..3 {
        verif::force_advance();
    }
    let g = circ::cs();
    cell.store(o1.clone(), SeqCst, &g);
    let o1_ts = cell.swap(Rc::null(), SeqCst); // same object, carries a timestamp
    // universe: (description, Rc)
    let uni: Vec<(String, Rc<V>)> = vec![
        ("{\"obj\":0,\"val\":0,\"tag\":0}".into(), Rc::null()),
        ("{\"obj\":0,\"val\":0,\"tag\":1}".into(), Rc::null().with_tag(1)),
        ("{\"obj\":1,\"val\":5,\"tag\":0}".into(), o1.clone()),
        ("{\"obj\":1,\"val\":5,\"tag\":1}".into(), o1.clone().with_tag(1)),
        ("{\"obj\":1,\"val\":5,\"tag\":0}".into(), o1_ts),
        ("{\"obj\":2,\"val\":5,\"tag\":0}".into(), o2.clone()),
        ("{\"obj\":3,\"val\":9,\"tag\":0}".into(), o3.clone()),
        ("{\"obj\":4,\"val\":2,\"tag\":2}".into(), o4.clone().with_tag(2)),
    ];
    for (i, (di, ri)) in uni.iter().enumerate() {
        for (j, (dj, rj)) in uni.iter().enumerate() {
            let mut s = String::new();
            let _ = write!(
                s,
                "{{\"fn\":\"ord\",\"h\":\"rc\",\"i\":{},\"j\":{},\"x\":{},\"y\":{},\"eq\":{},\"ne\":{},\"pcmp\":{},\"cmp\":{},\"heq\":{},\"peq\":{}}}",
                i + 1, j + 1, di, dj, (ri == rj) as u8, (ri != rj) as u8, ordn(ri.partial_cmp(rj)), ordn(Some(ri.cmp(rj))), (h(ri) == h(rj)) as u8, ri.ptr_eq(rj) as u8
            );
            out.push(s);
            let (si, sj) = (ri.snapshot(&g), rj.snapshot(&g));
            let mut s = String::new();
            let _ = write!(
                s,
                "{{\"fn\":\"ord\",\"h\":\"sn\",\"i\":{},\"j\":{},\"x\":{},\"y\":{},\"eq\":{},\"ne\":{},\"pcmp\":{},\"cmp\":{},\"heq\":{},\"peq\":{}}}",
                i + 1, j + 1, di, dj, (si == sj) as u8, (si != sj) as u8, ordn(si.partial_cmp(&sj)), ordn(Some(si.cmp(&sj))), (h(&si) == h(&sj)) as u8, si.ptr_eq(sj) as u8
            );
            out.push(s);
        }
    }
    out.push(format!("{{\"fn\":\"ord_end\",\"n\":{}}}", uni.len()));
    drop(g);
    out
}
