//! Bounded systematic exploration of the LIFE-CYCLE races of the reference-counting layer.
//!
//! `rcpairs` enumerates every one-preemption schedule of two calls on a heap where no count ever
//! reaches zero.  This module does the same on heaps where it does: the last strong owner goes away,
//! a `try_destruct` is pending, a cascade walks through a child - while the other thread upgrades,
//! clones, snapshots or releases through weak pointers.  For every situation, every call A of the
//! first thread, every scheduling point k of A, and every short sequence B of the other thread:
//! A runs k steps, B runs to completion, A finishes; and with the roles swapped (the first call of
//! B is preempted at each of its points by the whole of A).  Afterwards grace periods pass with
//! collections, what B obtained is used once more, and the finisher releases everything handle by
//! handle.  Every step of every run is recorded and judged by TLC (TraceCirc.tla), a seeded sample is
//! also explained step by step (TraceCircStrict.tla).
use crate::rcworld::*;

/// what thread 1 does after its first call, if that call produced something
#[derive(Clone, Copy, Debug)]
pub enum Then {
    Nothing,
    /// use the Rc in slot: clone it and drop the clone
    UseRc(usize),
    /// drop the Rc in slot at once
    DropRc(usize),
    /// Snapshot in sn slot -> counted Rc (slot 7), later dropped by the finisher
    CountSn(usize),
    /// drop the Weak in slot
    DropWk(usize),
}

pub struct Situation {
    pub name: &'static str,
    pub setup: fn(&mut Ctl),
    /// calls of thread 0 (the side whose count goes to zero / that runs the deferred functions)
    pub a: Vec<(&'static str, Op)>,
    /// calls of thread 1 with their follow-up
    pub b: Vec<(&'static str, Op, Then)>,
}

fn adv(ctl: &mut Ctl, n: usize) {
    for _ in 0..n {
        ctl.advance();
    }
}

/// X -> Y (X.next[0] = Y, Y owned by that link only).  t0: Rc(X) slot 0, pinned.  t1: Weak(X) slot 0,
/// Weak(Y) slot 1, pinned, WeakSnapshot(X) 0, WeakSnapshot(Y) 1.
fn heap_last_handle(ctl: &mut Ctl) {
    ctl.run(0, Op::New { dst: 1, next: RcArg::Null(0) }); // Y
    ctl.run(0, Op::Downgrade { src: 1, dst: 1 });
    ctl.run(0, Op::New { dst: 0, next: RcArg::Slot(1) }); // X -> Y
    ctl.run(0, Op::Downgrade { src: 0, dst: 0 });
    ctl.run(0, Op::Give { kind: 'w', slot: 0, to: 1, to_slot: 0 });
    ctl.run(0, Op::Give { kind: 'w', slot: 1, to: 1, to_slot: 1 });
    ctl.run(1, Op::Recv);
    ctl.run(0, Op::Pin);
    ctl.run(1, Op::Pin);
    ctl.run(1, Op::WSnap { src: 0, dst: 0 });
    ctl.run(1, Op::WSnap { src: 1, dst: 1 });
}

/// X -> Y, X owned by cell 0 only.  t0 pinned, no handles.  t1 as above plus Snapshot(X) 0 loaded from the cell.
fn heap_last_link(ctl: &mut Ctl) {
    heap_last_handle(ctl);
    ctl.run(0, Op::Store { loc: Loc::Cell(0), val: RcArg::Slot(0) });
    ctl.run(0, Op::Load { loc: Loc::Cell(0), dst: 0 });
    ctl.run(1, Op::Load { loc: Loc::Cell(0), dst: 0 });
}

/// X -> Y, nobody owns X any more: its try_destruct is pending and ripe.  t0 idle, unpinned.
/// t1: Weak(X) 0, Weak(Y) 1, unpinned.
fn heap_pending(ctl: &mut Ctl) {
    ctl.run(0, Op::New { dst: 1, next: RcArg::Null(0) }); // Y
    ctl.run(0, Op::Downgrade { src: 1, dst: 1 });
    ctl.run(0, Op::New { dst: 0, next: RcArg::Slot(1) }); // X -> Y
    ctl.run(0, Op::Downgrade { src: 0, dst: 0 });
    ctl.run(0, Op::Give { kind: 'w', slot: 0, to: 1, to_slot: 0 });
    ctl.run(0, Op::Give { kind: 'w', slot: 1, to: 1, to_slot: 1 });
    ctl.run(1, Op::Recv);
    ctl.run(0, Op::Drop { slot: 0 });
    adv(ctl, 4);
}

/// as `heap_pending`, but t1 is pinned (after the object aged) and holds WeakSnapshots of X and Y
fn heap_pending_pinned(ctl: &mut Ctl) {
    heap_pending(ctl);
    ctl.run(1, Op::Pin);
    ctl.run(1, Op::WSnap { src: 0, dst: 0 });
    ctl.run(1, Op::WSnap { src: 1, dst: 1 });
}

/// X whose last Weak goes away while its block is being released: X dropped and destructed already
/// (payload gone, block kept by the weak owners).  t0: Weak(X) 0.  t1: Weak(X) 0, pinned, WeakSnapshot(X) 0.
fn heap_dead_weak(ctl: &mut Ctl) {
    ctl.run(0, Op::New { dst: 0, next: RcArg::Null(0) });
    ctl.run(0, Op::Downgrade { src: 0, dst: 0 });
    ctl.run(0, Op::Downgrade { src: 0, dst: 1 });
    ctl.run(0, Op::Give { kind: 'w', slot: 1, to: 1, to_slot: 0 });
    ctl.run(1, Op::Recv);
    ctl.run(0, Op::Drop { slot: 0 });
    for _ in 0..4 {
        ctl.advance();
        ctl.run(0, Op::Collect);
    }
    ctl.run(1, Op::Pin);
    ctl.run(1, Op::WSnap { src: 0, dst: 0 });
}

pub fn situations() -> Vec<Situation> {
    let weak_side = |pinned: bool| -> Vec<(&'static str, Op, Then)> {
        let mut v = vec![
            ("upgrade_x", Op::Upgrade { src: 0, dst: 6 }, Then::Nothing),
            ("upgrade_x_use", Op::Upgrade { src: 0, dst: 6 }, Then::UseRc(6)),
            ("upgrade_x_drop", Op::Upgrade { src: 0, dst: 6 }, Then::DropRc(6)),
            ("upgrade_y", Op::Upgrade { src: 1, dst: 6 }, Then::Nothing),
            ("upgrade_y_drop", Op::Upgrade { src: 1, dst: 6 }, Then::DropRc(6)),
            ("wclone_x", Op::WClone { src: 0, dst: 4 }, Then::Nothing),
            ("wclone_x_drop", Op::WClone { src: 0, dst: 4 }, Then::DropWk(4)),
            ("wclone_y", Op::WClone { src: 1, dst: 4 }, Then::Nothing),
            ("dropweak_x", Op::DropWeak { slot: 0 }, Then::Nothing),
            ("dropweak_y", Op::DropWeak { slot: 1 }, Then::Nothing),
        ];
        if pinned {
            v.extend(vec![
                ("wsupgrade_x", Op::WSUpgrade { ws: 0, dst: 4 }, Then::Nothing),
                ("wsupgrade_x_count", Op::WSUpgrade { ws: 0, dst: 4 }, Then::CountSn(4)),
                ("wsupgrade_y", Op::WSUpgrade { ws: 1, dst: 4 }, Then::Nothing),
                ("wsupgrade_y_count", Op::WSUpgrade { ws: 1, dst: 4 }, Then::CountSn(4)),
                ("wcounted_x", Op::WCounted { ws: 0, dst: 4 }, Then::Nothing),
                ("wcounted_x_drop", Op::WCounted { ws: 0, dst: 4 }, Then::DropWk(4)),
                ("wcounted_y", Op::WCounted { ws: 1, dst: 4 }, Then::Nothing),
            ]);
        }
        v
    };
    let mut link_side = weak_side(true);
    link_side.extend(vec![
        ("counted_x", Op::Counted { sn: 0, dst: 6 }, Then::Nothing),
        ("counted_x_use", Op::Counted { sn: 0, dst: 6 }, Then::UseRc(6)),
        ("load_count", Op::Load { loc: Loc::Cell(0), dst: 5 }, Then::CountSn(5)),
        ("snapdown_x", Op::SnapDown { sn: 0, dst: 3 }, Then::Nothing),
    ]);
    vec![
        Situation {
            name: "last_handle",
            setup: heap_last_handle,
            a: vec![("drop_x", Op::Drop { slot: 0 }), ("finalize_x", Op::Finalize { slot: 0 }), ("unpin", Op::Unpin)],
            b: weak_side(true),
        },
        Situation {
            name: "last_link",
            setup: heap_last_link,
            a: vec![
                ("store_null", Op::Store { loc: Loc::Cell(0), val: RcArg::Null(0) }),
                ("swap_null", Op::Swap { loc: Loc::Cell(0), val: RcArg::Null(0), dst: 5 }),
                ("cas_null", Op::Cas { loc: Loc::Cell(0), exp: SnArg::Slot(0), val: RcArg::Null(0), weak: false, dst_rc: 5, dst_sn: 2 }),
            ],
            b: link_side,
        },
        Situation { name: "pending", setup: heap_pending, a: vec![("collect", Op::Collect)], b: weak_side(false) },
        Situation { name: "pending_pinned", setup: heap_pending_pinned, a: vec![("collect", Op::Collect)], b: weak_side(true) },
        Situation {
            name: "dead_weak",
            setup: heap_dead_weak,
            a: vec![("dropweak_x", Op::DropWeak { slot: 0 }), ("wclone_x", Op::WClone { src: 0, dst: 4 }), ("collect", Op::Collect)],
            b: vec![
                ("dropweak_x", Op::DropWeak { slot: 0 }, Then::Nothing),
                ("wclone_x", Op::WClone { src: 0, dst: 4 }, Then::Nothing),
                ("wclone_x_drop", Op::WClone { src: 0, dst: 4 }, Then::DropWk(4)),
                ("wcounted_x", Op::WCounted { ws: 0, dst: 4 }, Then::Nothing),
                ("wcounted_x_drop", Op::WCounted { ws: 0, dst: 4 }, Then::DropWk(4)),
                ("upgrade_x", Op::Upgrade { src: 0, dst: 6 }, Then::Nothing),
                ("wsupgrade_x", Op::WSUpgrade { ws: 0, dst: 4 }, Then::Nothing),
            ],
        },
    ]
}

fn follow(ctl: &mut Ctl, then: Then) {
    match then {
        Then::Nothing => {}
        Then::UseRc(s) => {
            if ctl.sh[1].rcs[s].is_some() {
                ctl.run(1, Op::Clone { src: s, dst: 8 });
                ctl.run(1, Op::Drop { slot: 8 });
            }
        }
        Then::DropRc(s) => {
            if ctl.sh[1].rcs[s].is_some() {
                ctl.run(1, Op::Drop { slot: s });
            }
        }
        Then::CountSn(s) => {
            if ctl.sh[1].pinned && ctl.sh[1].sns[s].map(|h| h.obj != 0).unwrap_or(false) {
                ctl.run(1, Op::Counted { sn: s, dst: 7 });
            }
        }
        Then::DropWk(s) => {
            if ctl.sh[1].wks[s].is_some() {
                ctl.run(1, Op::DropWeak { slot: s });
            }
        }
    }
}

/// grace periods with collections by the side that retired, then a late use of whatever thread 1 still holds
fn aftermath(ctl: &mut Ctl, then: Then) {
    if ctl.sh[1].pinned {
        ctl.run(1, Op::Unpin);
    }
    if ctl.sh[0].pinned {
        ctl.run(0, Op::Unpin);
    }
    for _ in 0..4 {
        ctl.advance();
        ctl.run(0, Op::Collect);
    }
    if let Then::Nothing = then {
        // an Rc obtained by thread 1 and still held is used after the grace periods
        if ctl.sh[1].rcs[6].is_some() {
            ctl.run(1, Op::Clone { src: 6, dst: 8 });
            ctl.run(1, Op::Drop { slot: 8 });
        }
    }
    ctl.finisher(true);
}

fn steps_of(ctl: &mut Ctl, s: &Situation, t: usize, op: &Op) -> usize {
    ctl.reset("sys:probe");
    (s.setup)(ctl);
    ctl.start(t, op.clone());
    let mut n = 0;
    while !ctl.idle(t) && n < 400 {
        ctl.step(t);
        n += 1;
    }
    ctl.finisher(true);
    n
}

/// `filter(situation, a, b)` selects what is run; returns the number of scenarios
pub fn run_sys(ctl: &mut Ctl, filter: &dyn Fn(&str, &str, &str) -> bool, residue: Option<usize>) -> usize {
    let mut count = 0;
    for s in situations() {
        for (an, a) in s.a.iter() {
            if !s.b.iter().any(|(bn, _, _)| filter(s.name, an, bn)) {
                continue;
            }
            let first = ctl.out.len();
            let na = steps_of(ctl, &s, 0, a);
            ctl.out.truncate(first);
            for (bn, b, then) in s.b.iter() {
                if !filter(s.name, an, bn) {
                    continue;
                }
                // A preempted at k by B (and its follow-up)
                for k in 0..=na {
                    if let Some(r) = residue {
                        ctl.advance_to_residue(r);
                    }
                    ctl.reset(&format!("sys:{}:{}:{}:a{}", s.name, an, bn, k));
                    (s.setup)(ctl);
                    ctl.start(0, a.clone());
                    for _ in 0..k {
                        if !ctl.idle(0) {
                            ctl.step(0);
                        }
                    }
                    ctl.run(1, b.clone());
                    follow(ctl, *then);
                    ctl.finish(0);
                    aftermath(ctl, *then);
                    count += 1;
                }
                // B's call preempted at k by the whole of A
                let first = ctl.out.len();
                let nb = steps_of(ctl, &s, 1, b);
                ctl.out.truncate(first);
                // (k = 0: B has run up to its first scheduling point - it may already have loaded a count word)
                for k in 0..nb {
                    if let Some(r) = residue {
                        ctl.advance_to_residue(r);
                    }
                    ctl.reset(&format!("sys:{}:{}:{}:b{}", s.name, an, bn, k));
                    (s.setup)(ctl);
                    ctl.start(1, b.clone());
                    for _ in 0..k {
                        if !ctl.idle(1) {
                            ctl.step(1);
                        }
                    }
                    ctl.run(0, a.clone());
                    ctl.finish(1);
                    follow(ctl, *then);
                    aftermath(ctl, *then);
                    count += 1;
                }
            }
        }
    }
    count
}
