//! Directed (witness) scenarios for the reference-counting layer.
//!
//! Each one is the schedule of a TLC counterexample of a *mutated* `Circ.tla` (a mechanism
//! switched off), translated by the rule "run thread t until it has performed the access at site
//! S".  On an implementation that has the mechanism the run ends with the property intact; on one
//! that lacks it the recorded states violate the property's invariant, which TLC reports when it
//! validates the trace.  Every scenario is run at all 16 alignments of the epoch counter.
use circ::verif::site;

use crate::rcworld::*;

fn done(ctl: &mut Ctl) {
    if !ctl.panics.is_empty() {
        let msg = ctl.panics.join("; ");
        ctl.record("abort", usize::MAX, &msg, None);
        return;
    }
    ctl.finisher(true);
    if !ctl.panics.is_empty() {
        let msg = ctl.panics.join("; ");
        ctl.record("abort", usize::MAX, &msg, None);
    }
}
fn adv(ctl: &mut Ctl, n: usize) {
    for _ in 0..n {
        ctl.advance();
    }
}

/// Mutant `DecEpUnpinned`/`NoDecStamp`: a dropper reads the epoch, sleeps three grace periods and
/// publishes the stale stamp over a fresh one; a cascade then reaches the node under a reader.
pub fn stale_stamp(ctl: &mut Ctl, res: usize) {
    ctl.advance_to_residue(res);
    ctl.reset(&format!("dir:stale_stamp:{}", res));
    crate::rcrun::build_template(ctl, 1); // P -> X, cell0 -> X, t0: Rc(X) slot0, t1: Rc(P) slot0
    ctl.start(0, Op::Drop { slot: 0 });
    ctl.run_through(0, site::U_DEC_EPOCH); // epoch read; now the dropper sleeps
    ctl.run(1, Op::Drop { slot: 0 }); // P: 1 -> 0, try_destruct deferred
    adv(ctl, 3);
    ctl.run(1, Op::Pin);
    ctl.run(1, Op::Load { loc: Loc::Cell(0), dst: 0 }); // Snapshot(X)
    ctl.run(1, Op::Store { loc: Loc::Cell(0), val: RcArg::Null(0) }); // X: 3 -> 2, fresh stamp
    ctl.finish(0); // X: 2 -> 1 with whatever stamp the dropper publishes
    ctl.run(0, Op::Collect); // P destructed; cascade decides about X
    ctl.run(1, Op::Load { loc: Loc::Cell(0), dst: 1 }); // reader still in its critical section
    done(ctl);
}

/// Mutant `IncNotAtomic`/`NoToken`: increment-from-zero racing two runs of the pending
/// try_destruct (six grace periods inside one `Weak::upgrade`).
pub fn inc_from_zero(ctl: &mut Ctl, res: usize, stall_site: u32) {
    ctl.advance_to_residue(res);
    ctl.reset(&format!("dir:inc_from_zero:{}:{}", res, stall_site));
    crate::rcrun::build_template(ctl, 2); // X: t1 Rc slot0, t0 Weak slot0, wcell0 -> X
    ctl.run(1, Op::Drop { slot: 0 }); // X: 1 -> 0, try_destruct deferred
    ctl.start(0, Op::Upgrade { src: 0, dst: 0 });
    ctl.run_through(0, stall_site); // first half of the increment done, now sleep
    adv(ctl, 3);
    ctl.run(1, Op::Collect); // try_destruct #1
    adv(ctl, 3);
    ctl.run(1, Op::Collect); // try_destruct #2
    ctl.finish(0); // upgrade returns
    adv(ctl, 4);
    ctl.run(1, Op::Collect);
    done(ctl);
}

/// Mutant `IncRetryIgnoresDestructed`: the upgrade has loaded the word (count 0, not destructed) and
/// stands before its CAS while the pending try_destruct runs; the retry must notice the flag.
pub fn upgrade_loaded_then_destruct(ctl: &mut Ctl, res: usize, via_snapshot: bool) {
    ctl.advance_to_residue(res);
    ctl.reset(&format!("dir:upgrade_loaded_then_destruct:{}:{}", res, via_snapshot));
    crate::rcrun::build_template(ctl, 2);
    ctl.run(1, Op::Drop { slot: 0 }); // X: 1 -> 0, deferred
    adv(ctl, 3);
    if via_snapshot {
        ctl.run(0, Op::Pin);
        ctl.run(0, Op::WSnap { src: 0, dst: 0 });
        ctl.start(0, Op::WSUpgrade { ws: 0, dst: 0 });
        ctl.run_to(0, site::U_ISND_CAS);
    } else {
        ctl.start(0, Op::Upgrade { src: 0, dst: 0 });
        ctl.run_to(0, site::U_INC_FAA1); // word loaded, CAS not yet issued
    }
    ctl.run(1, Op::Collect); // try_destruct runs: DESTRUCTED set, payload dropped
    ctl.finish(0);
    if via_snapshot {
        ctl.run(0, Op::Unpin);
    }
    done(ctl);
}

/// Mutant `CascadeNoMark`: a node reclaimed as a *child* must be flagged before its destructor
/// runs, so that later upgrades fail.
pub fn cascade_then_upgrade(ctl: &mut Ctl, res: usize) {
    ctl.advance_to_residue(res);
    ctl.reset(&format!("dir:cascade_then_upgrade:{}", res));
    crate::rcrun::build_template(ctl, 3); // cell0 -> A -> B -> C ; t0 Weak(C) slot0 ; t1 Rc(B) slot0
    ctl.run(1, Op::Drop { slot: 0 });
    ctl.run(1, Op::Pin);
    ctl.run(1, Op::Store { loc: Loc::Cell(0), val: RcArg::Null(0) }); // A: 1 -> 0
    ctl.run(1, Op::Unpin);
    adv(ctl, 4);
    ctl.run(1, Op::Collect); // A root; B, C cascade
    ctl.run(0, Op::Upgrade { src: 0, dst: 0 }); // must fail
    ctl.run(0, Op::Pin);
    ctl.run(0, Op::WSnap { src: 0, dst: 0 });
    ctl.run(0, Op::WSUpgrade { ws: 0, dst: 0 }); // must fail
    ctl.run(0, Op::Unpin);
    done(ctl);
}

/// An upgrade that slips in between the cascade's child decrement (count -> 0) and its decision.
pub fn upgrade_inside_cascade(ctl: &mut Ctl, res: usize, at: u32) {
    ctl.advance_to_residue(res);
    ctl.reset(&format!("dir:upgrade_inside_cascade:{}:{}", res, at));
    crate::rcrun::build_template(ctl, 3);
    ctl.run(1, Op::Drop { slot: 0 });
    ctl.run(1, Op::Pin);
    ctl.run(1, Op::Store { loc: Loc::Cell(0), val: RcArg::Null(0) });
    ctl.run(1, Op::Unpin);
    adv(ctl, 4);
    ctl.start(1, Op::Collect);
    // run the collector until it has decremented C (second child CAS) and stands before `at`
    let mut cas = 0;
    let mut n = 0;
    while !ctl.idle(1) && n < 2000 {
        if ctl.ws[1].at == Some(site::U_DG_CHILD_CAS) {
            cas += 1;
            ctl.step(1);
            if cas == 2 {
                break;
            }
        } else {
            ctl.step(1);
        }
        n += 1;
    }
    if !ctl.idle(1) {
        ctl.run_to(1, at);
    }
    ctl.run(0, Op::Upgrade { src: 0, dst: 0 }); // C has count 0, not yet destructed
    ctl.finish(1);
    adv(ctl, 4);
    ctl.run(1, Op::Collect);
    adv(ctl, 4);
    ctl.run(1, Op::Collect);
    done(ctl);
}

/// Mutant `UpgradeNoStamp`: WeakSnapshot::upgrade of a node whose count is > 0 while a ripe
/// try_destruct of its (old) parent is pending.
pub fn wsupgrade_vs_cascade(ctl: &mut Ctl, res: usize) {
    ctl.advance_to_residue(res);
    ctl.reset(&format!("dir:wsupgrade_vs_cascade:{}", res));
    // P -> X ; t0 Weak(X) ; t1 Rc(P)
    ctl.run(0, Op::New { dst: 0, next: RcArg::Null(0) }); // X
    ctl.run(0, Op::Downgrade { src: 0, dst: 0 });
    ctl.run(0, Op::New { dst: 1, next: RcArg::Slot(0) }); // P -> X
    ctl.run(0, Op::Give { kind: 'r', slot: 1, to: 1, to_slot: 0 });
    ctl.run(1, Op::Recv);
    adv(ctl, 5);
    ctl.run(1, Op::Drop { slot: 0 }); // P: 1 -> 0, deferred
    adv(ctl, 3);
    ctl.run(0, Op::Pin);
    ctl.run(0, Op::WSnap { src: 0, dst: 0 });
    ctl.run(0, Op::WSUpgrade { ws: 0, dst: 0 }); // Snapshot(X), count 1
    ctl.run(1, Op::Collect); // P destructed; X: 1 -> 0; immediate or deferred?
    done(ctl);
}

/// Mutant `NoUpgradeToken`: WeakSnapshot::upgrade on a zero count whose try_destruct becomes ripe
/// inside the upgrading critical section (pin exactly `k` epochs after the last drop).
pub fn upgrade_token_window(ctl: &mut Ctl, res: usize, k: usize) {
    ctl.advance_to_residue(res);
    ctl.reset(&format!("dir:upgrade_token_window:{}:{}", res, k));
    crate::rcrun::build_template(ctl, 2); // X: t1 Rc slot0, t0 Weak slot0
    ctl.run(1, Op::Drop { slot: 0 }); // X: 1 -> 0, try_destruct sealed now
    adv(ctl, k);
    ctl.run(0, Op::Pin);
    ctl.run(0, Op::WSnap { src: 0, dst: 0 });
    ctl.run(0, Op::WSUpgrade { ws: 0, dst: 0 }); // Snapshot(X) while the count is zero
    adv(ctl, 2); // at most one of these can succeed while t0 is pinned
    ctl.run(1, Op::Collect);
    ctl.run(0, Op::Load { loc: Loc::Cell(0), dst: 1 }); // still inside the critical section
    adv(ctl, 2);
    ctl.run(1, Op::Collect);
    ctl.run(0, Op::Counted { sn: 0, dst: 0 });
    ctl.run(0, Op::Unpin);
    done(ctl);
}

/// Token protocol: last drop, then upgrade/clone-from-snapshot from zero, then the pending
/// try_destruct; the object must survive until the new owner releases it.
pub fn token_protocol(ctl: &mut Ctl, res: usize, via_snapshot: bool) {
    ctl.advance_to_residue(res);
    ctl.reset(&format!("dir:token_protocol:{}:{}", res, via_snapshot));
    crate::rcrun::build_template(ctl, 2);
    ctl.run(1, Op::Drop { slot: 0 }); // X: 1 -> 0
    if via_snapshot {
        ctl.run(0, Op::Pin);
        ctl.run(0, Op::WSnap { src: 0, dst: 0 });
        ctl.run(0, Op::WSUpgrade { ws: 0, dst: 0 });
        ctl.run(0, Op::Counted { sn: 0, dst: 0 });
        ctl.run(0, Op::Unpin);
    } else {
        ctl.run(0, Op::Upgrade { src: 0, dst: 0 });
    }
    adv(ctl, 4);
    ctl.run(1, Op::Collect);
    adv(ctl, 4);
    ctl.run(1, Op::Collect);
    ctl.run(0, Op::Clone { src: 0, dst: 1 });
    ctl.run(0, Op::Drop { slot: 0 });
    adv(ctl, 4);
    ctl.run(1, Op::Collect);
    done(ctl);
}

/// Weak counts falling to zero and being re-incremented from a WeakSnapshot (C03).
pub fn weak_from_zero(ctl: &mut Ctl, res: usize, stall: bool) {
    ctl.advance_to_residue(res);
    ctl.reset(&format!("dir:weak_from_zero:{}:{}", res, stall));
    ctl.run(0, Op::New { dst: 0, next: RcArg::Null(0) });
    ctl.run(0, Op::Downgrade { src: 0, dst: 0 });
    ctl.run(0, Op::Give { kind: 'r', slot: 0, to: 1, to_slot: 0 });
    ctl.run(1, Op::Recv);
    ctl.run(0, Op::Pin);
    ctl.run(0, Op::WSnap { src: 0, dst: 0 });
    ctl.run(1, Op::Drop { slot: 0 }); // strong -> 0
    ctl.run(0, Op::DropWeak { slot: 0 }); // explicit weak shares -> only the implicit one
    if stall {
        ctl.start(0, Op::WCounted { ws: 0, dst: 0 });
        ctl.run_through(0, site::U_INCW_FAA1);
    } else {
        ctl.run(0, Op::WCounted { ws: 0, dst: 0 });
    }
    ctl.finish(0);
    ctl.run(0, Op::Unpin);
    adv(ctl, 4);
    ctl.run(1, Op::Collect); // object destructed, implicit share released
    adv(ctl, 4);
    ctl.run(1, Op::Collect);
    ctl.run(0, Op::WClone { src: 0, dst: 1 });
    ctl.run(0, Op::Upgrade { src: 0, dst: 0 });
    ctl.run(0, Op::DropWeak { slot: 0 });
    adv(ctl, 4);
    ctl.run(1, Op::Collect);
    done(ctl);
}

/// Mutant `WeakTokenFromStaleLoad`: the last weak decrement lands between the load and the fetch_add of a
/// concurrent WeakSnapshot::counted(); the increment must notice that it started from zero.
pub fn weak_inc_vs_last_dec(ctl: &mut Ctl, res: usize, at: u32) {
    ctl.advance_to_residue(res);
    ctl.reset(&format!("dir:weak_inc_vs_last_dec:{}:{}", res, at));
    ctl.run(0, Op::New { dst: 0, next: RcArg::Null(0) });
    ctl.run(0, Op::Downgrade { src: 0, dst: 0 });
    ctl.run(0, Op::Give { kind: 'w', slot: 0, to: 1, to_slot: 0 }); // the only explicit weak owner: t1
    ctl.run(1, Op::Recv);
    ctl.run(0, Op::Drop { slot: 0 }); // strong -> 0
    adv(ctl, 3);
    ctl.run(0, Op::Collect); // destructed: the implicit share is gone, weak count = 1
    ctl.run(0, Op::Pin);
    ctl.run(1, Op::Pin);
    ctl.run(1, Op::WStore { loc: WLoc::Cell(0), val: RcArg::Slot(0) }); // park it in a cell so that t0 can see it
    ctl.run(0, Op::WLoad { loc: WLoc::Cell(0), dst: 0 });
    ctl.start(0, Op::WCounted { ws: 0, dst: 0 });
    ctl.run_to(0, at); // count loaded (1), increment not yet published
    ctl.run(1, Op::WStore { loc: WLoc::Cell(0), val: RcArg::Null(0) }); // 1 -> 0, try_dealloc deferred
    ctl.finish(0); // increment from zero
    ctl.run(0, Op::Unpin);
    ctl.run(1, Op::Unpin);
    for _ in 0..3 {
        adv(ctl, 3);
        ctl.run(1, Op::Collect);
    }
    ctl.run(0, Op::WClone { src: 0, dst: 1 }); // the Weak must still refer to an allocated block
    done(ctl);
}

/// Mutant `DisposeFreesLastShare`: a WeakSnapshot loaded in a critical section that is active while
/// the object is destructed keeps the block allocated until that critical section ends.
pub fn wsnap_vs_dispose(ctl: &mut Ctl, res: usize, k: usize) {
    ctl.advance_to_residue(res);
    ctl.reset(&format!("dir:wsnap_vs_dispose:{}:{}", res, k));
    ctl.run(0, Op::New { dst: 0, next: RcArg::Null(0) });
    ctl.run(0, Op::Downgrade { src: 0, dst: 0 });
    ctl.run(0, Op::Pin);
    ctl.run(0, Op::WStore { loc: WLoc::Cell(0), val: RcArg::Slot(0) });
    ctl.run(0, Op::Unpin);
    ctl.run(0, Op::Give { kind: 'r', slot: 0, to: 1, to_slot: 0 });
    ctl.run(1, Op::Recv);
    ctl.run(1, Op::Drop { slot: 0 }); // strong -> 0, try_destruct sealed now
    adv(ctl, k);
    ctl.run(0, Op::Pin);
    ctl.run(0, Op::WLoad { loc: WLoc::Cell(0), dst: 0 }); // WeakSnapshot under t0's guard
    ctl.run(1, Op::Pin);
    ctl.run(1, Op::WStore { loc: WLoc::Cell(0), val: RcArg::Null(0) }); // explicit share released: only the implicit one is left
    ctl.run(1, Op::Unpin);
    adv(ctl, 3);
    ctl.run(1, Op::Collect); // try_destruct may run now
    ctl.run(0, Op::WCounted { ws: 0, dst: 0 }); // touches the count word of the block
    ctl.run(0, Op::Unpin);
    done(ctl);
}

/// Mutant `TDeallocKeepsToken`: weak count raised from zero again after the object died; the token must
/// be given back so that the block is freed once the last Weak is gone.
pub fn weak_resurrect_after_death(ctl: &mut Ctl, res: usize) {
    ctl.advance_to_residue(res);
    ctl.reset(&format!("dir:weak_resurrect_after_death:{}", res));
    ctl.run(0, Op::New { dst: 0, next: RcArg::Null(0) });
    ctl.run(0, Op::Downgrade { src: 0, dst: 0 });
    ctl.run(0, Op::Pin);
    ctl.run(0, Op::WStore { loc: WLoc::Cell(0), val: RcArg::Slot(0) });
    ctl.run(0, Op::Unpin);
    ctl.run(0, Op::Drop { slot: 0 });
    adv(ctl, 3);
    ctl.run(1, Op::Collect); // dead, weak count 1 (the cell)
    ctl.run(0, Op::Pin);
    ctl.run(0, Op::WLoad { loc: WLoc::Cell(0), dst: 0 });
    ctl.run(0, Op::WStore { loc: WLoc::Cell(0), val: RcArg::Null(0) }); // 1 -> 0, try_dealloc deferred
    ctl.run(0, Op::WCounted { ws: 0, dst: 0 }); // 0 -> token + share
    ctl.run(0, Op::Unpin);
    adv(ctl, 3);
    ctl.run(1, Op::Collect); // try_dealloc gives the token back
    ctl.run(0, Op::DropWeak { slot: 0 });
    done(ctl);
}

/// Mutant `CascadeRereadsCount`: a child shared by two parents whose cascades run on two threads.
pub fn dag_two_cascades(ctl: &mut Ctl, res: usize, pause_after_cas: bool) {
    ctl.advance_to_residue(res);
    ctl.reset(&format!("dir:dag_two_cascades:{}:{}", res, pause_after_cas));
    crate::rcrun::build_template(ctl, 4); // P1 -> S <- P2 ; t0: Rc(P1) slot 2 ; t1: Rc(P2) slot 0 ; wcell0 -> S
    ctl.run(0, Op::Drop { slot: 2 });
    ctl.run(1, Op::Drop { slot: 0 });
    adv(ctl, 4);
    ctl.start(0, Op::Collect); // pops the first parent
    ctl.run_to(0, site::U_DG_CHILD_CAS);
    if pause_after_cas {
        ctl.step(0); // S: 2 -> 1 published
    }
    ctl.run(1, Op::Collect); // the other parent: S reaches zero here (or in t0's CAS)
    ctl.finish(0);
    done(ctl);
}

/// C08: timestamp-only differences never fail a CAS; failure returns `desired`.
pub fn cas_across_epochs(ctl: &mut Ctl, res: usize, gap: usize, weak: bool) {
    ctl.advance_to_residue(res);
    ctl.reset(&format!("dir:cas_across_epochs:{}:{}:{}", res, gap, weak));
    ctl.run(0, Op::New { dst: 0, next: RcArg::Null(0) }); // X
    ctl.run(0, Op::Clone { src: 0, dst: 1 });
    ctl.run(0, Op::Clone { src: 0, dst: 2 });
    ctl.run(0, Op::New { dst: 3, next: RcArg::Null(0) }); // Y
    ctl.run(0, Op::Pin);
    ctl.run(0, Op::Store { loc: Loc::Cell(0), val: RcArg::Slot(1) });
    ctl.run(0, Op::Snap { src: 0, dst: 0 }); // expected without timestamp
    ctl.run(0, Op::Load { loc: Loc::Cell(0), dst: 1 }); // expected with the first timestamp
    ctl.run(0, Op::Unpin);
    adv(ctl, gap);
    ctl.run(0, Op::Pin);
    ctl.run(0, Op::Snap { src: 0, dst: 0 });
    // the same pointer is swapped out and stored back at a later epoch
    ctl.run(0, Op::Swap { loc: Loc::Cell(0), val: RcArg::Slot(2), dst: 2 });
    ctl.run(0, Op::Cas { loc: Loc::Cell(0), exp: SnArg::Slot(0), val: RcArg::Slot(3), weak, dst_rc: 3, dst_sn: 2 }); // must succeed
    ctl.run(0, Op::Cas { loc: Loc::Cell(0), exp: SnArg::Slot(0), val: RcArg::Slot(3), weak, dst_rc: 4, dst_sn: 3 }); // must fail, desired back
    ctl.run(0, Op::Load { loc: Loc::Cell(0), dst: 4 });
    ctl.run(0, Op::CasTag { loc: Loc::Cell(0), exp: SnArg::Slot(4), tag: 1, dst_sn: 5 }); // succeeds
    ctl.run(0, Op::CasTag { loc: Loc::Cell(0), exp: SnArg::Slot(4), tag: 2, dst_sn: 6 }); // stale tag: must fail
    ctl.run(0, Op::Unpin);
    done(ctl);
}

/// C09: the expected WeakSnapshot obtained in the three ways the property lists.
pub fn wcas_expected_sources(ctl: &mut Ctl, res: usize, gap: usize) {
    ctl.advance_to_residue(res);
    ctl.reset(&format!("dir:wcas_expected_sources:{}:{}", res, gap));
    ctl.run(0, Op::New { dst: 0, next: RcArg::Null(0) }); // X, pointer without timestamp
    ctl.run(0, Op::Downgrade { src: 0, dst: 0 }); // w0: no timestamp
    ctl.run(0, Op::Clone { src: 0, dst: 1 });
    ctl.run(0, Op::Pin);
    ctl.run(0, Op::Store { loc: Loc::Cell(0), val: RcArg::Slot(1) }); // AtomicRc holds X stamped now
    ctl.run(0, Op::Unpin);
    adv(ctl, gap);
    ctl.run(0, Op::Pin);
    ctl.run(0, Op::Swap { loc: Loc::Cell(0), val: RcArg::Null(0), dst: 1 }); // Rc(X) carrying a timestamp
    ctl.run(0, Op::Downgrade { src: 1, dst: 1 }); // w1 carries the timestamp bits
    ctl.run(0, Op::WClone { src: 1, dst: 2 });
    ctl.run(0, Op::WStore { loc: WLoc::Cell(0), val: RcArg::Slot(1) });
    // (1) expected taken from a Weak made at another epoch
    ctl.run(0, Op::WSnap { src: 0, dst: 0 });
    ctl.run(0, Op::WCas { loc: WLoc::Cell(0), exp: SnArg::Slot(0), val: RcArg::Slot(2), weak: false, dst_wk: 2, dst_ws: 1 });
    // (2) expected downgraded from a Snapshot of the Rc
    ctl.run(0, Op::Snap { src: 0, dst: 0 });
    ctl.run(0, Op::SnapDown { sn: 0, dst: 2 });
    ctl.run(0, Op::WCasTag { loc: WLoc::Cell(0), exp: SnArg::Slot(2), tag: 1, dst_ws: 3 });
    // (3) expected loaded from the cell itself
    ctl.run(0, Op::WLoad { loc: WLoc::Cell(0), dst: 4 });
    ctl.run(0, Op::WCas { loc: WLoc::Cell(0), exp: SnArg::Slot(4), val: RcArg::Null(0), weak: false, dst_wk: 3, dst_ws: 5 });
    ctl.run(0, Op::Unpin);
    done(ctl);
}

/// C10: bulk constructors, every count 0..3, every consumed prefix, drop vs abort.
pub fn bulk(ctl: &mut Ctl, n: usize, take: usize, abort: bool, weak_n: usize) {
    ctl.reset(&format!("dir:bulk:{}:{}:{}:{}", n, take, abort, weak_n));
    ctl.run(0, Op::IterNew { it: 0, n });
    for i in 0..take.min(n) {
        ctl.run(0, Op::IterNext { it: 0, dst: i });
    }
    if abort {
        ctl.run(0, Op::Pin);
        ctl.run(0, Op::IterAbort { it: 0 });
        ctl.run(0, Op::Unpin);
    } else {
        ctl.run(0, Op::IterDrop { it: 0 });
    }
    ctl.run(0, Op::NewMany { n, dsts: (4..4 + n).collect() });
    if n > 0 && weak_n > 0 {
        ctl.run(0, Op::WeakMany { src: 4, n: weak_n, dsts: (0..weak_n).collect() });
    }
    adv(ctl, 4);
    ctl.run(1 % ctl.ws.len(), Op::Collect);
    done(ctl);
}

/// The count word of a child is stamped when a WeakSnapshot is upgraded; `gap` epochs later the same reader
/// pins again and upgrades again, and holds the Snapshot while one more advance passes and the already
/// released parent cascades into the child.  The second upgrade must leave a stamp that is young enough
/// for the cascade to defer the child (a stamp that is exactly `gap` = 2 epochs old is not).
pub fn restamp_gap(ctl: &mut Ctl, res: usize, gap: usize) {
    ctl.advance_to_residue(res);
    ctl.reset(&format!("dir:restamp_gap:{}:{}", res, gap));
    ctl.run(0, Op::New { dst: 0, next: RcArg::Null(0) }); // X
    ctl.run(0, Op::Downgrade { src: 0, dst: 0 });
    ctl.run(0, Op::New { dst: 1, next: RcArg::Slot(0) }); // P -> X: the link is X's only strong owner
    ctl.run(0, Op::Give { kind: 'r', slot: 1, to: 1, to_slot: 0 });
    ctl.run(1, Op::Recv);
    ctl.run(0, Op::Pin);
    ctl.run(0, Op::WSnap { src: 0, dst: 0 });
    ctl.run(0, Op::WSUpgrade { ws: 0, dst: 0 }); // stamps X with the current epoch
    ctl.run(0, Op::Unpin);
    ctl.run(1, Op::Drop { slot: 0 }); // P: try_destruct pending from here on
    adv(ctl, gap);
    ctl.run(0, Op::Pin);
    ctl.run(0, Op::WSnap { src: 0, dst: 0 });
    ctl.run(0, Op::WSUpgrade { ws: 0, dst: 0 }); // Snapshot(X), held
    adv(ctl, 2); // at most one succeeds while t0 is pinned
    ctl.run(1, Op::Collect); // P's try_destruct if ripe: cascade into X
    ctl.run(0, Op::Counted { sn: 0, dst: 2 });
    adv(ctl, 1);
    ctl.run(1, Op::Collect);
    ctl.run(0, Op::Unpin);
    done(ctl);
}

/// The epoch is advanced by the code itself here (the harness normally blocks `try_advance` and advances on
/// its own): a reader that stays in one critical section retires objects by the hundred, which makes its own
/// `defer` call `try_advance` every 64th time.  Its own announcement must hold the epoch back; otherwise the
/// object it reads through a Snapshot is destructed by the other thread's collection.
pub fn self_retire_under_guard(ctl: &mut Ctl, res: usize, n: usize) {
    ctl.advance_to_residue(res);
    ctl.reset(&format!("nat:self_retire_under_guard:{}:{}", res, n));
    ctl.run(0, Op::New { dst: 0, next: RcArg::Null(0) }); // X
    ctl.run(0, Op::Pin);
    ctl.run(0, Op::Store { loc: Loc::Cell(0), val: RcArg::Slot(0) });
    ctl.run(0, Op::Load { loc: Loc::Cell(0), dst: 0 }); // Snapshot(X), held to the end
    ctl.run(1, Op::Pin);
    ctl.run(1, Op::Store { loc: Loc::Cell(0), val: RcArg::Null(0) }); // X: 1 -> 0, try_destruct deferred
    ctl.run(1, Op::Unpin);
    circ::verif::set_advance_blocked(false);
    for i in 0..n {
        ctl.run(0, Op::New { dst: 1, next: RcArg::Null(0) });
        ctl.run(0, Op::Finalize { slot: 1 }); // defers through the reader's own guard
        if i % 64 == 63 {
            ctl.run(1, Op::Collect);
        }
    }
    circ::verif::set_advance_blocked(true);
    ctl.run(1, Op::Collect);
    ctl.run(0, Op::Counted { sn: 0, dst: 2 });
    ctl.run(0, Op::Unpin);
    done(ctl);
}

pub fn run_family(ctl: &mut Ctl, fam: &str) -> usize {
    let mut n = 0;
    let all = fam == "all";
    for res in 0..16 {
        if all || fam == "c02" {
            stale_stamp(ctl, res);
            wsupgrade_vs_cascade(ctl, res);
            n += 2;
        }
        if all || fam == "c02" || fam == "c05" || fam == "c01" {
            for k in 0..4 {
                upgrade_token_window(ctl, res, k);
                n += 1;
            }
        }
        if all || fam == "c02" || fam == "c05" {
            for gap in 0..=4 {
                restamp_gap(ctl, res, gap);
                n += 1;
            }
        }
        if (all || fam == "c02") && res == 14 {
            self_retire_under_guard(ctl, res, 200);
            n += 1;
        }
        if all || fam == "c01" || fam == "c05" {
            inc_from_zero(ctl, res, site::U_INC_FAA1);
            upgrade_loaded_then_destruct(ctl, res, false);
            upgrade_loaded_then_destruct(ctl, res, true);
            n += 2;
            token_protocol(ctl, res, false);
            token_protocol(ctl, res, true);
            cascade_then_upgrade(ctl, res);
            n += 4;
            for at in [site::U_DG_ENTER, site::U_DG_LOAD, site::U_DG_EPOCH, site::U_DG_POP] {
                upgrade_inside_cascade(ctl, res, at);
                n += 1;
            }
        }
        if all || fam == "c03" || fam == "c04" {
            weak_from_zero(ctl, res, false);
            weak_from_zero(ctl, res, true);
            weak_resurrect_after_death(ctl, res);
            n += 3;
            for at in [site::U_INCW_FAA1, site::U_INCW_CAS] {
                weak_inc_vs_last_dec(ctl, res, at);
                n += 1;
            }
            for k in 0..4 {
                wsnap_vs_dispose(ctl, res, k);
                n += 1;
            }
            dag_two_cascades(ctl, res, false);
            dag_two_cascades(ctl, res, true);
            n += 2;
        }
        if all || fam == "c08" {
            for gap in [0, 1, 5] {
                cas_across_epochs(ctl, res, gap, false);
                cas_across_epochs(ctl, res, gap, true);
                n += 2;
            }
        }
        if all || fam == "c09" {
            for gap in [0, 1, 5] {
                wcas_expected_sources(ctl, res, gap);
                n += 1;
            }
        }
    }
    if all || fam == "c10" || fam == "c04" {
        for cnt in 0..4 {
            for take in 0..=cnt {
                for abort in [false, true] {
                    bulk(ctl, cnt, take, abort, take.min(3));
                    n += 1;
                }
            }
        }
    }
    n
}

/// C12 end to end: the decision actually taken by `dispose_general_node` for a child whose
/// youngest stamp has a known true age, at every alignment of the epoch counter.
/// Returns JSON rows `{fn:"decide", depth, ne, cur, imm, minage, maxage}`.
pub fn decide_rows(ctl: &mut Ctl) -> Vec<String> {
    let mut rows = Vec::new();
    for res in 0..16 {
        for a3 in [0usize, 1, 4, 8, 9, 10, 11, 12] {
            for j in 0..=(3 + a3) {
                ctl.advance_to_residue(res);
                ctl.reset(&format!("dir:decide:{}:{}:{}", res, a3, j));
                let first = ctl.out.len();
                // X with three owners: link P.next, Rc in t1 (slot 0), Rc in t0 (dropped with P)
                ctl.run(0, Op::New { dst: 0, next: RcArg::Null(0) }); // X
                ctl.run(0, Op::Clone { src: 0, dst: 1 });
                ctl.run(0, Op::Give { kind: 'r', slot: 1, to: 1, to_slot: 0 });
                ctl.run(1, Op::Recv);
                ctl.run(0, Op::New { dst: 2, next: RcArg::Null(0) }); // P
                ctl.run(0, Op::Pin);
                ctl.run(0, Op::Store { loc: Loc::RcField(2, 0), val: RcArg::Slot(0) }); // P.next = X, stamped now
                ctl.run(0, Op::Unpin);
                let e_p = circ::verif::global_epoch();
                ctl.run(0, Op::Drop { slot: 2 }); // P: 1 -> 0 at e_p
                let total = 3 + a3; // epochs until the collection
                let mut dropped = false;
                for step in 0..=total {
                    if !dropped && total - step == j {
                        ctl.run(1, Op::Drop { slot: 0 }); // X: 2 -> 1, stamp of true age j at decision time
                        dropped = true;
                    }
                    if step < total {
                        ctl.advance();
                    }
                }
                let cur = circ::verif::global_epoch();
                ctl.run(0, Op::Collect);
                let maxage = cur - e_p;
                let minage = j.min(maxage);
                for line in &ctl.out[first..] {
                    if let Some(p) = line.find("\"decide:1:depth1:") {
                        let s = &line[p + 1..];
                        let f: Vec<&str> = s.split('"').next().unwrap().split(':').collect();
                        let ne: usize = f[3].trim_start_matches("ne").parse().unwrap();
                        let c: usize = f[4].trim_start_matches("cur").parse().unwrap();
                        rows.push(format!(
                            "{{\"fn\":\"decide\",\"depth\":1,\"ne\":{},\"cur\":{},\"imm\":{},\"minage\":{},\"maxage\":{},\"res\":{}}}",
                            ne, c, (f[5] == "imm") as u8, minage, maxage, res
                        ));
                    }
                }
                ctl.finisher(true);
                ctl.out.truncate(first);
            }
        }
    }
    rows
}
