//! Quarantining global allocator.
//!
//! Blocks registered with `track` are never handed back to the system allocator while a scenario
//! runs: when the library frees one, it is poisoned and kept, so (a) the free is observed without
//! trusting any hook, (b) a second free is observed, and (c) any later write to the block
//! (use-after-free of the count word) is visible as modified poison.
use std::alloc::{GlobalAlloc, Layout, System};
use std::sync::atomic::{AtomicBool, AtomicU64, AtomicUsize, Ordering::SeqCst};

pub const MAXOBJ: usize = 256;
pub const POISON: u64 = 0xDDDD_DDDD_DDDD_DDDD;

pub struct Quarantine;

static ENABLED: AtomicBool = AtomicBool::new(false);
#[allow(clippy::declare_interior_mutable_const)]
const Z: AtomicUsize = AtomicUsize::new(0);
#[allow(clippy::declare_interior_mutable_const)]
const Z64: AtomicU64 = AtomicU64::new(0);
static ADDR: [AtomicUsize; MAXOBJ] = [Z; MAXOBJ];
static SIZE: [AtomicUsize; MAXOBJ] = [Z; MAXOBJ];
static ALIGN: [AtomicUsize; MAXOBJ] = [Z; MAXOBJ];
static NFREE: [AtomicUsize; MAXOBJ] = [Z; MAXOBJ];
static FREE_SEQ: [AtomicU64; MAXOBJ] = [Z64; MAXOBJ];
static LAST_WORD: [AtomicU64; MAXOBJ] = [Z64; MAXOBJ];
/// Byte offset of the count word inside a tracked block.
pub static STATE_OFF: AtomicUsize = AtomicUsize::new(usize::MAX);
static NTRACKED: AtomicUsize = AtomicUsize::new(0);
/// Global event sequence (shared with the payload life-cycle events).
pub static SEQ: AtomicU64 = AtomicU64::new(1);

unsafe impl GlobalAlloc for Quarantine {
    unsafe fn alloc(&self, l: Layout) -> *mut u8 {
        let p = System.alloc(l);
        let _ = CAPTURE.try_with(|c| {
            let (sz, id) = c.get();
            if sz == l.size() && l.size() != 0 {
                c.set((0, p as usize));
                if id != 0 {
                    track(id, p as usize);
                }
            }
        });
        p
    }
    unsafe fn dealloc(&self, p: *mut u8, l: Layout) {
        if ENABLED.load(SeqCst) {
            let n = NTRACKED.load(SeqCst);
            for id in 1..=n {
                if ADDR[id].load(SeqCst) == p as usize {
                    let prev = NFREE[id].fetch_add(1, SeqCst);
                    if prev == 0 {
                        FREE_SEQ[id].store(SEQ.fetch_add(1, SeqCst), SeqCst);
                        SIZE[id].store(l.size(), SeqCst);
                        ALIGN[id].store(l.align(), SeqCst);
                        let off = STATE_OFF.load(SeqCst);
                        if off != usize::MAX && off + 8 <= l.size() {
                            LAST_WORD[id].store((p.add(off) as *const u64).read_volatile(), SeqCst);
                        }
                        let words = l.size() / 8;
                        let q = p as *mut u64;
                        for i in 0..words {
                            q.add(i).write_volatile(POISON);
                        }
                    }
                    return; // quarantined
                }
            }
        }
        System.dealloc(p, l)
    }
    unsafe fn realloc(&self, p: *mut u8, l: Layout, n: usize) -> *mut u8 {
        System.realloc(p, l, n)
    }
}

thread_local! {
    /// `(size to capture, captured address)`: lets a caller learn the address of a block the
    /// library allocates without handing out any pointer to it.
    static CAPTURE: std::cell::Cell<(usize, usize)> = const { std::cell::Cell::new((0, 0)) };
}
/// The next allocation of `size` bytes on this thread is registered as object `id` at once.
pub fn capture_next(size: usize, id: usize) {
    CAPTURE.with(|c| c.set((size, id)));
}
pub fn captured() -> usize {
    CAPTURE.with(|c| {
        let v = c.get();
        c.set((0, 0));
        v.1
    })
}

pub fn enable(b: bool) {
    ENABLED.store(b, SeqCst);
}

/// Registers the block at `addr` as object `id` (ids are 1..MAXOBJ, dense).
pub fn track(id: usize, addr: usize) {
    assert!(id < MAXOBJ, "too many tracked objects");
    ADDR[id].store(addr, SeqCst);
    NFREE[id].store(0, SeqCst);
    FREE_SEQ[id].store(0, SeqCst);
    let n = NTRACKED.load(SeqCst);
    if id > n {
        NTRACKED.store(id, SeqCst);
    }
}

pub fn addr_of(id: usize) -> usize {
    ADDR[id].load(SeqCst)
}
pub fn id_of(addr: usize) -> usize {
    let n = NTRACKED.load(SeqCst);
    (1..=n).find(|&id| ADDR[id].load(SeqCst) == addr).unwrap_or(0)
}
pub fn ntracked() -> usize {
    NTRACKED.load(SeqCst)
}
pub fn nfree(id: usize) -> usize {
    NFREE[id].load(SeqCst)
}
pub fn last_word(id: usize) -> u64 {
    LAST_WORD[id].load(SeqCst)
}
pub fn free_seq(id: usize) -> u64 {
    FREE_SEQ[id].load(SeqCst)
}

/// Really frees every quarantined block and forgets all tracked addresses.
pub fn release_all(really_free: bool) {
    let n = NTRACKED.load(SeqCst);
    let was = ENABLED.swap(false, SeqCst);
    for id in 1..=n {
        let a = ADDR[id].swap(0, SeqCst);
        if really_free && a != 0 && NFREE[id].load(SeqCst) > 0 {
            let l = Layout::from_size_align(SIZE[id].load(SeqCst), ALIGN[id].load(SeqCst)).unwrap();
            unsafe { System.dealloc(a as *mut u8, l) };
        }
        NFREE[id].store(0, SeqCst);
    }
    NTRACKED.store(0, SeqCst);
    ENABLED.store(was, SeqCst);
}
