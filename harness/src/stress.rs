//! Whole-process drivers (each case runs in a child process, so that an abort, a stack overflow or
//! a hang of the code under test is an observation, not the end of the checker):
//!  - C06: epoch advances needed to reclaim a chain / tree, per length, alignment and held node
//!  - C07: destroying long and deep structures on threads with small stacks
//!  - C15: one closure shape per process (sizes around the inline limit, over-aligned captures)
//!  - C20: API calls from thread-local destructors that run after the participant handle died
//! Every case prints one JSON row; TLC judges the rows (TraceRows.tla).
use std::cell::RefCell;
use std::process::{Command, Stdio};
use std::sync::atomic::{AtomicUsize, Ordering::SeqCst};
use std::time::{Duration, Instant};

use circ::verif::{self, site};
use circ::{cs, AtomicRc, Rc, RcObject};

static DROPS: AtomicUsize = AtomicUsize::new(0);
static MAXDEPTH: AtomicUsize = AtomicUsize::new(0);
static DEFER_CUT: AtomicUsize = AtomicUsize::new(0);

fn ev_hook(kind: u32, _addr: usize, a: u64, b: u64) {
    if kind == site::EV_DG_DECIDE {
        let d = (a >> 32) as usize;
        MAXDEPTH.fetch_max(d, SeqCst);
    }
    if kind == site::EV_DEFER_DESTRUCT && a == 1 {
        DEFER_CUT.fetch_add(1, SeqCst);
        MAXDEPTH.fetch_max(b as usize, SeqCst);
    }
}
fn no_pre(_: u32) {}

// ---- node types -------------------------------------------------------------------------------
pub struct L {
    next: AtomicRc<L>,
}
unsafe impl RcObject for L {
    fn pop_edges(&mut self, out: &mut Vec<Rc<Self>>) {
        out.push(self.next.take());
    }
}
impl Drop for L {
    fn drop(&mut self) {
        DROPS.fetch_add(1, SeqCst);
    }
}
/// doubly linked: `next` strong, `prev` weak (every node but the last is the target of a Weak while the cascade
/// walks through it)
pub struct D {
    next: AtomicRc<D>,
    prev: circ::AtomicWeak<D>,
}
unsafe impl RcObject for D {
    fn pop_edges(&mut self, out: &mut Vec<Rc<Self>>) {
        out.push(self.next.take());
    }
}
impl Drop for D {
    fn drop(&mut self) {
        DROPS.fetch_add(1, SeqCst);
    }
}
fn build_dll(n: usize) -> Rc<D> {
    // built from the tail: head -> ... -> tail, each node's `prev` points (weakly) at its predecessor
    let mut head: Rc<D> = Rc::null();
    let g = cs();
    for _ in 0..n {
        let node = Rc::new(D { next: AtomicRc::null(), prev: circ::AtomicWeak::null() });
        if let Some(succ) = head.as_ref() {
            succ.prev.store(node.downgrade(), SeqCst, &g);
        }
        node.as_ref().unwrap().next.store(head, SeqCst, &g);
        head = node;
    }
    head
}
pub struct T2 {
    l: AtomicRc<T2>,
    r: AtomicRc<T2>,
}
unsafe impl RcObject for T2 {
    fn pop_edges(&mut self, out: &mut Vec<Rc<Self>>) {
        out.push(self.l.take());
        out.push(self.r.take());
    }
}
impl Drop for T2 {
    fn drop(&mut self) {
        DROPS.fetch_add(1, SeqCst);
    }
}
/// a directory whose files own blobs of another node type (edges released by `Drop`, not `pop_edges`)
pub struct Blob;
unsafe impl RcObject for Blob {
    fn pop_edges(&mut self, _: &mut Vec<Rc<Self>>) {}
}
impl Drop for Blob {
    fn drop(&mut self) {
        DROPS.fetch_add(1, SeqCst);
    }
}
pub struct File {
    next: AtomicRc<File>,
    _blob: Rc<Blob>,
}
unsafe impl RcObject for File {
    fn pop_edges(&mut self, out: &mut Vec<Rc<Self>>) {
        out.push(self.next.take());
    }
}
impl Drop for File {
    fn drop(&mut self) {
        DROPS.fetch_add(1, SeqCst);
    }
}

/// wide three-level tree of three node types: a Dir owns n Files (in a Vec), each File owns a Blob;
/// nothing is handed out by pop_edges, every edge is released by a destructor
pub struct WFile {
    _data: AtomicRc<Blob>,
}
unsafe impl RcObject for WFile {
    fn pop_edges(&mut self, _: &mut Vec<Rc<Self>>) {}
}
impl Drop for WFile {
    fn drop(&mut self) {
        DROPS.fetch_add(1, SeqCst);
    }
}
pub struct WDir {
    _files: Vec<AtomicRc<WFile>>,
}
unsafe impl RcObject for WDir {
    fn pop_edges(&mut self, _: &mut Vec<Rc<Self>>) {}
}
impl Drop for WDir {
    fn drop(&mut self) {
        DROPS.fetch_add(1, SeqCst);
    }
}
fn build_wdir(n: usize) -> (Rc<WDir>, usize) {
    let files = (0..n).map(|_| AtomicRc::new(WFile { _data: AtomicRc::new(Blob) })).collect();
    (Rc::new(WDir { _files: files }), 2 * n + 1)
}

fn settle(rounds: usize) {
    for _ in 0..rounds {
        let g = cs();
        g.flush();
        drop(g);
    }
}

fn build_chain(n: usize) -> Rc<L> {
    let mut head: Rc<L> = Rc::null();
    let g = cs();
    for _ in 0..n {
        let node = Rc::new(L { next: AtomicRc::null() });
        node.as_ref().unwrap().next.store(head, SeqCst, &g);
        head = node;
    }
    head
}
/// chain whose links were written at a steady rate of one epoch per `every` links: the stamps span
/// far more than the 4-bit window (known finding i)
fn build_aged_chain(n: usize, every: usize) -> Rc<L> {
    let mut head: Rc<L> = Rc::null();
    for i in 0..n {
        if i % every == 0 {
            verif::force_advance();
        }
        let g = cs();
        let node = Rc::new(L { next: AtomicRc::null() });
        node.as_ref().unwrap().next.store(head, SeqCst, &g);
        head = node;
    }
    head
}
fn build_tree(depth: usize) -> (Rc<T2>, usize) {
    if depth == 0 {
        return (Rc::null(), 0);
    }
    let (l, nl) = build_tree(depth - 1);
    let (r, nr) = build_tree(depth - 1);
    let g = cs();
    let n = Rc::new(T2 { l: AtomicRc::null(), r: AtomicRc::null() });
    n.as_ref().unwrap().l.store(l, SeqCst, &g);
    n.as_ref().unwrap().r.store(r, SeqCst, &g);
    (n, nl + nr + 1)
}
/// cons list: every cell has a leaf `car` (popped first) and the rest of the list as `cdr`
fn build_cons(n: usize) -> (Rc<T2>, usize) {
    let mut head: Rc<T2> = Rc::null();
    let g = cs();
    for _ in 0..n {
        let leaf = Rc::new(T2 { l: AtomicRc::null(), r: AtomicRc::null() });
        let cell = Rc::new(T2 { l: AtomicRc::null(), r: AtomicRc::null() });
        cell.as_ref().unwrap().l.store(leaf, SeqCst, &g);
        cell.as_ref().unwrap().r.store(head, SeqCst, &g);
        head = cell;
    }
    (head, 2 * n)
}
/// right-leaning path: the left child is null, the right child continues
fn build_right_path(n: usize) -> (Rc<T2>, usize) {
    let mut head: Rc<T2> = Rc::null();
    let g = cs();
    for _ in 0..n {
        let cell = Rc::new(T2 { l: AtomicRc::null(), r: AtomicRc::null() });
        cell.as_ref().unwrap().r.store(head, SeqCst, &g);
        head = cell;
    }
    (head, n)
}
fn build_dir(n: usize) -> (Rc<File>, usize) {
    let mut head: Rc<File> = Rc::null();
    let g = cs();
    for _ in 0..n {
        let f = Rc::new(File { next: AtomicRc::null(), _blob: Rc::new(Blob) });
        f.as_ref().unwrap().next.store(head, SeqCst, &g);
        head = f;
    }
    (head, 2 * n)
}

// ---- child side -------------------------------------------------------------------------------

/// C07 child: build `shape` of size n, drop it on a thread with `stack` bytes, collect until every
/// node is destructed.  Prints `{..."drops":d,"expected":e,"maxdepth":m}` and exits 0.
pub fn child_c07(shape: &str, n: usize, stack: usize) {
    verif::set_hooks(no_pre, ev_hook);
    let shape = shape.to_string();
    let h = std::thread::Builder::new()
        .stack_size(stack)
        .spawn(move || {
            let expected;
            match shape.as_str() {
                "chain" => {
                    let c = build_chain(n);
                    expected = n;
                    drop(c);
                }
                "tree" => {
                    let (t, k) = build_tree(n);
                    expected = k;
                    drop(t);
                }
                "cons" => {
                    let (t, k) = build_cons(n);
                    expected = k;
                    drop(t);
                }
                "rpath" => {
                    let (t, k) = build_right_path(n);
                    expected = k;
                    drop(t);
                }
                "wdir" => {
                    let (t, k) = build_wdir(n);
                    expected = k;
                    drop(t);
                }
                _ => {
                    let (t, k) = build_dir(n);
                    expected = k;
                    drop(t);
                }
            }
            let mut rounds = 0;
            while DROPS.load(SeqCst) < expected && rounds < 200_000 {
                settle(1);
                rounds += 1;
            }
            (expected, rounds)
        })
        .unwrap();
    let (expected, rounds) = h.join().unwrap();
    println!("{{\"drops\":{},\"expected\":{},\"maxdepth\":{},\"rounds\":{}}}", DROPS.load(SeqCst), expected, MAXDEPTH.load(SeqCst), rounds);
}

/// C06 child: one structure; count the global-epoch advances between dropping the head and the
/// last destructor under an eager driver (advance, then collect everything that is ripe).
pub fn child_c06(shape: &str, n: usize, residue: usize, age: usize, held: usize) {
    verif::set_hooks(no_pre, ev_hook);
    verif::set_advance_blocked(true);
    while verif::global_epoch() % 16 != residue {
        verif::force_advance();
    }
    let (expected, keep): (usize, Option<Rc<L>>);
    let head_drop: Box<dyn FnOnce()>;
    match shape {
        "dll" => {
            let c = build_dll(n);
            expected = n;
            keep = None;
            head_drop = Box::new(move || drop(c));
        }
        "chain" => {
            let c = build_chain(n);
            // an externally held node at position `held` (1-based from the head; 0 = none)
            let mut k = None;
            if held > 0 {
                let g = cs();
                let mut s = c.snapshot(&g);
                for _ in 1..held {
                    s = s.as_ref().unwrap().next.load(SeqCst, &g);
                }
                k = Some(s.counted());
            }
            expected = if held > 0 { held - 1 } else { n };
            keep = k;
            head_drop = Box::new(move || drop(c));
        }
        "tree" => {
            let (t, k) = build_tree(n);
            expected = k;
            keep = None;
            head_drop = Box::new(move || drop(t));
        }
        "aged" => {
            let c = build_aged_chain(n, 1);
            expected = n;
            keep = None;
            head_drop = Box::new(move || drop(c));
        }
        _ => {
            let (t, k) = build_right_path(n);
            expected = k;
            keep = None;
            head_drop = Box::new(move || drop(t));
        }
    }
    // let the links age: "links at least a few epochs old"
    for _ in 0..age {
        verif::force_advance();
    }
    settle(2);
    let base = DROPS.load(SeqCst);
    let e0 = verif::global_epoch();
    head_drop();
    let mut adv = 0;
    while DROPS.load(SeqCst) - base < expected && adv < 100_000 {
        verif::force_advance();
        adv += 1;
        settle(4);
    }
    let survivors_ok = keep.as_ref().map(|k| k.as_ref().is_some()).unwrap_or(true);
    let extra = DROPS.load(SeqCst) - base > expected;
    drop(keep);
    println!(
        "{{\"advances\":{},\"e0\":{},\"destructed\":{},\"expected\":{},\"held_alive\":{},\"over\":{},\"cuts\":{},\"nodes\":{}}}",
        adv, e0, DROPS.load(SeqCst) - base, expected, survivors_ok as u8, extra as u8, DEFER_CUT.load(SeqCst), expected
    );
}

// C20 ---------------------------------------------------------------------------------------------
/// object shared with a reader thread that keeps a Snapshot of it under a guard while the other
/// thread exits; released by the exiting thread's late destructor
pub struct Watched;
unsafe impl RcObject for Watched {
    fn pop_edges(&mut self, _: &mut Vec<Rc<Self>>) {}
}
static WATCHED_DROPPED: AtomicUsize = AtomicUsize::new(0);
impl Drop for Watched {
    fn drop(&mut self) {
        WATCHED_DROPPED.fetch_add(1, SeqCst);
    }
}
fn shared() -> &'static AtomicRc<Watched> {
    static C: std::sync::OnceLock<AtomicRc<Watched>> = std::sync::OnceLock::new();
    C.get_or_init(AtomicRc::null)
}
struct Late {
    kind: usize,
    stash: RefCell<Vec<Rc<L>>>,
    cell: AtomicRc<L>,
}
impl Drop for Late {
    fn drop(&mut self) {
        {
            // unlink the object a reader is looking at: it must outlive the reader's critical section
            let g = cs();
            shared().store(Rc::null(), SeqCst, &g);
        }
        // runs as a TLS destructor; depending on registration order the participant handle of this
        // thread is already destroyed
        match self.kind {
            0 => {
                let _g = cs();
            }
            1 => self.stash.borrow_mut().clear(), // Rc::drop -> decrement_strong -> cs() -> defer
            2 => {
                let g = cs();
                g.flush();
            }
            3 => {
                let g = cs();
                let _g2 = cs();
                let s = self.cell.load(SeqCst, &g);
                let r = s.counted();
                drop(r);
            }
            4 => {
                let g = cs();
                for r in self.stash.borrow_mut().drain(..) {
                    r.finalize(&g);
                }
            }
            5 => {
                let mut g = cs();
                g.reactivate();
            }
            6 => {
                let mut g = cs();
                g.reactivate_after(|| {});
            }
            8 | 9 => {
                // the late destructor itself READS under a guard it has reactivated (a participant kept alive by the
                // guard alone when the thread's handle is already gone), while the main thread unlinks what it reads
                // and collects
                let mut g = cs();
                if self.kind == 8 {
                    g.reactivate();
                } else {
                    g.reactivate_after(|| {});
                }
                let s = late_shared().load(SeqCst, &g);
                LATE_READY.store(1, SeqCst);
                let t0 = std::time::Instant::now();
                while LATE_GO.load(SeqCst) == 0 && t0.elapsed().as_secs() < 20 {
                    std::thread::yield_now();
                }
                let ok = !s.is_null() && WATCHED2_DROPPED.load(SeqCst) == 0 && LATE_GO.load(SeqCst) == 1;
                LATE_OK.store(1 + ok as usize, SeqCst);
                drop(g);
            }
            _ => {
                let g = cs();
                self.cell.store(Rc::null(), SeqCst, &g);
                g.flush();
            }
        }
    }
}
thread_local! {
    static LATE: RefCell<Option<Late>> = const { RefCell::new(None) };
}
pub const NKIND: usize = 10;
static LATE_READY: AtomicUsize = AtomicUsize::new(0);
static LATE_GO: AtomicUsize = AtomicUsize::new(0);
static LATE_OK: AtomicUsize = AtomicUsize::new(0);
static WATCHED2_DROPPED: AtomicUsize = AtomicUsize::new(0);
pub struct Watched2;
unsafe impl RcObject for Watched2 {
    fn pop_edges(&mut self, _: &mut Vec<Rc<Self>>) {}
}
impl Drop for Watched2 {
    fn drop(&mut self) {
        WATCHED2_DROPPED.fetch_add(1, SeqCst);
    }
}
fn late_shared() -> &'static AtomicRc<Watched2> {
    static C: std::sync::OnceLock<AtomicRc<Watched2>> = std::sync::OnceLock::new();
    C.get_or_init(AtomicRc::null)
}

/// C20 child: a thread registers its TLS object before (`order` 0) or after (1) its first use of
/// the library, optionally leaves garbage pending, and exits; the main thread then collects.
pub fn child_c20(kind: usize, order: usize, pending: usize) {
    let made = 3 + pending;
    {
        let g = cs();
        shared().store(Rc::new(Watched), SeqCst, &g);
        late_shared().store(Rc::new(Watched2), SeqCst, &g);
    }
    // the reader pins, takes a snapshot and holds both until the other thread is gone
    let (rtx, rrx) = std::sync::mpsc::channel::<()>();
    let (dtx, drx) = std::sync::mpsc::channel::<()>();
    let reader = std::thread::spawn(move || {
        if kind == 8 || kind == 9 {
            // the late destructor is the reader in these kinds: nobody else may hold the epoch back
            rtx.send(()).unwrap();
            drx.recv().unwrap();
            return true;
        }
        let g = cs();
        let s = shared().load(SeqCst, &g);
        assert!(!s.is_null());
        rtx.send(()).unwrap();
        drx.recv().unwrap(); // the other thread has exited (its late destructors ran)
        let ok = WATCHED_DROPPED.load(SeqCst) == 0;
        drop(g);
        ok
    });
    rrx.recv().unwrap();
    let h = std::thread::spawn(move || {
        let mk = || Late { kind, stash: RefCell::new(Vec::new()), cell: AtomicRc::null() };
        if order == 0 {
            LATE.with(|l| *l.borrow_mut() = Some(mk())); // destroyed AFTER the library's handle
            drop(cs());
        } else {
            drop(cs());
            LATE.with(|l| *l.borrow_mut() = Some(mk()));
        }
        LATE.with(|l| {
            let l = l.borrow();
            let late = l.as_ref().unwrap();
            for _ in 0..3 {
                late.stash.borrow_mut().push(Rc::new(L { next: AtomicRc::null() }));
            }
            let g = cs();
            late.cell.store(Rc::new(L { next: AtomicRc::null() }), SeqCst, &g);
        });
        // garbage produced before exit and left in the local bag
        for _ in 0..pending {
            drop(Rc::new(L { next: AtomicRc::null() }));
        }
    });
    if kind == 8 || kind == 9 {
        // the exiting thread's late destructor is reading: unlink what it reads and collect
        let t0 = std::time::Instant::now();
        while LATE_READY.load(SeqCst) == 0 && t0.elapsed().as_secs() < 20 {
            std::thread::yield_now();
        }
        {
            let g = cs();
            late_shared().store(Rc::null(), SeqCst, &g);
        }
        settle(12);
        LATE_GO.store(1, SeqCst);
    }
    let joined = h.join().is_ok();
    dtx.send(()).unwrap();
    let reader_ok = reader.join().unwrap_or(false);
    let mut rounds = 0;
    // objects: 3 stashed + 1 in the cell (dropped with the TLS object) + pending
    let expected = made + 1;
    while DROPS.load(SeqCst) < expected && rounds < 20_000 {
        settle(1);
        rounds += 1;
    }
    while WATCHED_DROPPED.load(SeqCst) == 0 && rounds < 40_000 {
        settle(1);
        rounds += 1;
    }
    println!(
        "{{\"joined\":{},\"drops\":{},\"expected\":{},\"rounds\":{},\"reader_ok\":{},\"watched_dropped\":{},\"late_ok\":{}}}",
        joined as u8, DROPS.load(SeqCst), expected, rounds, reader_ok as u8, WATCHED_DROPPED.load(SeqCst),
        (if kind == 8 || kind == 9 { LATE_OK.load(SeqCst) == 2 } else { true }) as u8
    );
}

// C18 on free-running threads --------------------------------------------------------------------
const LF_MAX: usize = 512;
static LF_FIN: [AtomicUsize; LF_MAX] = [const { AtomicUsize::new(0) }; LF_MAX];
fn lf_ev(kind: u32, _addr: usize, a: u64, _b: u64) {
    if kind == site::EV_L_FINALIZE && (a as usize) < LF_MAX {
        LF_FIN[a as usize].fetch_add(1, SeqCst);
    }
}
/// C18 child: races inside the list that have no scheduling point (a read-modify-write replaced by a
/// load and a store, say) need real threads.  The list is E1 -> X1 -> E2 -> X2 -> ... with every Xi already
/// deleted; one thread deletes the Ei in order while another traverses (and thereby unlinks what is marked).
/// At the end every element must have been handed to `finalize` exactly once.
pub fn child_listfree(trials: usize, m: usize) {
    use circ::verif::VList;
    verif::set_hooks(no_pre, lf_ev);
    let m = m.min(LF_MAX / 2 - 1);
    let (mut max_fin, mut min_fin, mut stalls, mut bad_trials) = (0usize, usize::MAX, 0usize, 0usize);
    for _ in 0..trials {
        for f in LF_FIN.iter() {
            f.store(0, SeqCst);
        }
        let col = std::sync::Arc::new(circ::verif::VCollector::new());
        let list = std::sync::Arc::new(VList::new());
        let h0 = col.register();
        let mut es = vec![0usize; m];
        let mut xs = vec![0usize; m];
        {
            let g = h0.pin();
            for i in (0..m).rev() {
                xs[i] = list.insert(2 * i + 1, &g); // Xi
                es[i] = list.insert(2 * i, &g); // Ei, in front of Xi
            }
            for &x in &xs {
                unsafe { list.delete(x, &g) };
            }
        }
        let go = std::sync::Arc::new(AtomicUsize::new(0));
        let (l1, g1, c1) = (list.clone(), go.clone(), col.clone());
        let es1 = es.clone();
        let deleter = std::thread::spawn(move || {
            let h = c1.register();
            while g1.load(SeqCst) == 0 {
                std::hint::spin_loop();
            }
            for &e in &es1 {
                let g = h.pin();
                unsafe { l1.delete(e, &g) };
            }
        });
        let (l2, g2, c2) = (list.clone(), go.clone(), col.clone());
        let walker = std::thread::spawn(move || {
            let h = c2.register();
            while g2.load(SeqCst) == 0 {
                std::hint::spin_loop();
            }
            let mut st = 0;
            for _ in 0..64 {
                let g = h.pin();
                let (_, stalled) = l2.traverse(&g);
                st += stalled as usize;
            }
            st
        });
        go.store(1, SeqCst);
        deleter.join().unwrap();
        stalls += walker.join().unwrap();
        // whatever is still linked and marked goes now
        for _ in 0..4 {
            let g = h0.pin();
            let _ = list.traverse(&g);
        }
        let fins: Vec<usize> = (0..2 * m).map(|i| LF_FIN[i].load(SeqCst)).collect();
        let (mx, mn) = (*fins.iter().max().unwrap(), *fins.iter().min().unwrap());
        max_fin = max_fin.max(mx);
        min_fin = min_fin.min(mn);
        if mx != 1 || mn != 1 {
            bad_trials += 1;
        }
        std::mem::forget(list); // entries are leaked by the harness element type anyway
    }
    println!("{{\"trials\":{},\"m\":{},\"max_fin\":{},\"min_fin\":{},\"bad_trials\":{},\"stalls\":{}}}", trials, m, max_fin, min_fin, bad_trials, stalls);
}

// C15 shapes --------------------------------------------------------------------------------------
pub fn child_shape(k: usize) {
    crate::sched::install(crate::ebrworld::ev_hook);
    verif::set_class_mask(0);
    let mut ctl = crate::ebrworld::Ctl::new(2);
    // the deferring thread exits with the closure in its bag; the survivor collects it
    ctl.reset(&format!("shape:{}", k), 3, vec![]);
    ctl.run(0, crate::ebrworld::Op::Pin);
    ctl.run(0, crate::ebrworld::Op::Defer { g: 0, k: 0, size: k });
    ctl.run(0, crate::ebrworld::Op::Defer { g: 0, k: 1, size: k });
    ctl.run(0, crate::ebrworld::Op::Defer { g: 0, k: 2, size: (k + 1) % crate::ebrworld::NSIZE });
    ctl.run(0, crate::ebrworld::Op::Unpin(0));
    ctl.run(0, crate::ebrworld::Op::HDrop);
    ctl.finisher(14);
    let last = ctl.out.last().cloned().unwrap_or_default();
    let v: serde_json::Value = serde_json::from_str(&last).unwrap();
    let ran: Vec<u64> = v["task"].as_array().unwrap().iter().map(|t| t["ran"].as_u64().unwrap()).collect();
    let bad: Vec<u64> = v["task"].as_array().unwrap().iter().map(|t| t["bad"].as_u64().unwrap()).collect();
    println!("{{\"ran\":{:?},\"bad\":{:?}}}", ran, bad);
    ctl.quit();
}

/// C04 child: free-running threads destroy DAGs with shared children side by side; prints the worst
/// per-object counters seen over `n` iterations.
pub fn child_free(n: usize, pairs: usize) {
    crate::sched::install(crate::rcworld::ev_hook);
    verif::set_class_mask(0);
    let (mut mp, mut md, mut mf, mut ord, mut uaf, mut leaked, mut objs) = (0, 0, 0, true, false, 0, 0);
    for _ in 0..n {
        let r = crate::rcworld::free_run_dag(pairs, 0);
        objs += r.0;
        mp = mp.max(r.1);
        md = md.max(r.2);
        mf = mf.max(r.3);
        ord &= r.4;
        uaf |= r.5;
        leaked += r.6;
    }
    println!(
        "{{\"iterations\":{},\"objs\":{},\"max_npop\":{},\"max_ndrop\":{},\"max_nfree\":{},\"order_ok\":{},\"uaf\":{},\"leaked\":{}}}",
        n, objs, mp, md, mf, ord as u8, uaf as u8, leaked
    );
}

// ---- parent side ------------------------------------------------------------------------------
pub struct Outcome {
    pub status: &'static str,
    pub json: String,
    pub secs: f64,
}
pub fn spawn_child(exe: &str, args: &[String], timeout: Duration) -> Outcome {
    let t0 = Instant::now();
    let mut ch = Command::new(exe).args(args).stdout(Stdio::piped()).stderr(Stdio::null()).spawn().expect("cannot spawn child");
    loop {
        match ch.try_wait().unwrap() {
            Some(st) => {
                let out = {
                    use std::io::Read;
                    let mut s = String::new();
                    ch.stdout.take().unwrap().read_to_string(&mut s).ok();
                    s
                };
                let json = out.lines().rev().find(|l| l.starts_with('{')).unwrap_or("{}").to_string();
                let status = if st.success() {
                    "ok"
                } else if st.code().is_some() {
                    "panic"
                } else {
                    "signal"
                };
                return Outcome { status, json, secs: t0.elapsed().as_secs_f64() };
            }
            None => {
                if t0.elapsed() > timeout {
                    let _ = ch.kill();
                    let _ = ch.wait();
                    return Outcome { status: "timeout", json: "{}".into(), secs: t0.elapsed().as_secs_f64() };
                }
                std::thread::sleep(Duration::from_millis(5));
            }
        }
    }
}

fn row(fnname: &str, params: &str, o: &Outcome) -> String {
    format!("{{\"fn\":\"{}\",{},\"status\":\"{}\",\"secs\":{:.2},\"out\":{}}}", fnname, params, o.status, o.secs, o.json)
}

pub fn run_parent(kind: &str, tier: &str, exe: &str) -> Vec<String> {
    let thorough = tier == "thorough";
    let mut cases: Vec<(String, Vec<String>, u64)> = Vec::new(); // (params json, child args, timeout s)
    match kind {
        "c07" => {
            let mut v: Vec<(&str, usize, usize)> = vec![
                ("chain", 1_000_000, 8 << 20), ("chain", 1_000_000, 2 << 20), ("chain", 200_000, 1 << 20), ("chain", 1025, 1 << 20),
                ("tree", 18, 2 << 20), ("tree", 16, 1 << 20), ("cons", 100_000, 2 << 20), ("cons", 30_000, 1 << 20),
                ("rpath", 200_000, 2 << 20), ("rpath", 50_000, 1 << 20), ("dir", 300_000, 1 << 20), ("dir", 600_000, 2 << 20), ("wdir", 600_000, 2 << 20), ("wdir", 300_000, 1 << 20),
                // below the documented minimum for a 1024-deep recursion: known finding h
                ("chain", 200_000, 128 << 10),
            ];
            if thorough {
                v.extend([("chain", 5_000_000, 2 << 20), ("tree", 21, 2 << 20), ("cons", 1_000_000, 1 << 20), ("dir", 2_000_000, 1 << 20), ("chain", 200_000, 512 << 10), ("chain", 200_000, 256 << 10)]);
            }
            for (s, n, st) in v {
                cases.push((format!("\"shape\":\"{}\",\"n\":{},\"stack\":{}", s, n, st), vec!["child-c07".into(), s.into(), n.to_string(), st.to_string()], 300));
            }
        }
        "c06" => {
            let ns: Vec<usize> = if thorough { vec![1, 2, 100, 1023, 1024, 1025, 2000, 5000, 20_000, 50_000] } else { vec![1, 2, 100, 1023, 1025, 3000] };
            for &n in &ns {
                for res in 0..16 {
                    if !thorough && n > 1025 && res % 4 != 0 {
                        continue;
                    }
                    for age in [3usize, 5, 9] {
                        if !thorough && age == 5 {
                            continue;
                        }
                        cases.push((format!("\"shape\":\"chain\",\"n\":{},\"res\":{},\"age\":{},\"held\":0", n, res, age), vec!["child-c06".into(), "chain".into(), n.to_string(), res.to_string(), age.to_string(), "0".into()], 300));
                    }
                }
            }
            for &(n, held) in &[(100usize, 2usize), (100, 50), (100, 100), (2000, 2), (2000, 1000), (2000, 2000)] {
                for res in [0usize, 5, 10, 15] {
                    cases.push((format!("\"shape\":\"chain\",\"n\":{},\"res\":{},\"age\":4,\"held\":{}", n, res, held), vec!["child-c06".into(), "chain".into(), n.to_string(), res.to_string(), "4".into(), held.to_string()], 300));
                }
            }
            // links written over many more epochs than the stamp window: known finding i
            cases.push(("\"shape\":\"aged\",\"n\":300,\"res\":0,\"age\":4,\"held\":0".to_string(), vec!["child-c06".into(), "aged".into(), "300".into(), "0".into(), "4".into(), "0".into()], 300));
            for &(shape, n) in &[("tree", 8usize), ("tree", 12), ("rpath", 600), ("rpath", 3000), ("dll", 2), ("dll", 600), ("dll", 3000)] {
                for res in [0usize, 3, 7, 11, 14, 15] {
                    cases.push((format!("\"shape\":\"{}\",\"n\":{},\"res\":{},\"age\":4,\"held\":0", shape, n, res), vec!["child-c06".into(), shape.into(), n.to_string(), res.to_string(), "4".into(), "0".into()], 300));
                }
            }
        }
        "free" => {
            let (children, n) = if thorough { (96, 600) } else { (24, 300) };
            for c in 0..children {
                cases.push((format!("\"child\":{},\"n\":{},\"pairs\":20", c, n), vec!["child-free".into(), n.to_string(), "20".into()], 600));
            }
        }
        "listfree" => {
            let (children, trials) = if thorough { (64, 40_000) } else { (16, 10_000) };
            for c in 0..children {
                cases.push((format!("\"child\":{},\"trials\":{},\"m\":64", c, trials), vec!["child-listfree".into(), trials.to_string(), "64".into()], 600));
            }
        }
        "c20" => {
            for kindk in 0..NKIND {
                for order in 0..2 {
                    for pending in [0usize, 5, 70] {
                        cases.push((format!("\"kind\":{},\"order\":{},\"pending\":{}", kindk, order, pending), vec!["child-c20".into(), kindk.to_string(), order.to_string(), pending.to_string()], 60));
                    }
                }
            }
        }
        _ => {
            for k in 0..crate::ebrworld::NSIZE {
                cases.push((format!("\"k\":{}", k), vec!["child-shape".into(), k.to_string()], 60));
            }
        }
    }
    // run the children in parallel, 8 at a time
    let mut rows = vec![String::new(); cases.len()];
    let cases = std::sync::Arc::new(cases);
    let next = std::sync::Arc::new(AtomicUsize::new(0));
    let results = std::sync::Arc::new(std::sync::Mutex::new(Vec::new()));
    let mut hs = Vec::new();
    for _ in 0..8 {
        let (cases, next, results, exe) = (cases.clone(), next.clone(), results.clone(), exe.to_string());
        let kind = kind.to_string();
        hs.push(std::thread::spawn(move || loop {
            let i = next.fetch_add(1, SeqCst);
            if i >= cases.len() {
                break;
            }
            let o = spawn_child(&exe, &cases[i].1, Duration::from_secs(cases[i].2));
            results.lock().unwrap().push((i, row(&kind, &cases[i].0, &o)));
        }));
    }
    for h in hs {
        h.join().unwrap();
    }
    for (i, r) in results.lock().unwrap().drain(..) {
        rows[i] = r;
    }
    rows
}
