//! Deterministic cooperative scheduler.
//!
//! Every model thread is a real OS thread. While it executes a command it is *managed*: at each
//! enabled `pre` site of the library it reports the site and blocks until the controller grants
//! one more step. The controller blocks while a worker runs, so exactly one thread runs at a
//! time and an execution is a total order of steps, as in the TLA+ specification.
use std::cell::RefCell;
use std::panic::{catch_unwind, AssertUnwindSafe};
use std::sync::mpsc::{channel, Receiver, Sender};

use circ::verif;

pub enum Evt<R> {
    AtSite(u32),
    Done(Result<R, String>),
}
pub enum Cmd<C> {
    Go,
    Run(C),
    Quit,
}

thread_local! {
    #[allow(clippy::type_complexity)]
    static LINK: RefCell<Option<(Box<dyn Fn(u32)>, Box<dyn Fn()>)>> = const { RefCell::new(None) };
}

fn pre_hook(site: u32) {
    LINK.with(|l| {
        if let Some((at, wait)) = l.borrow().as_ref() {
            at(site);
            wait();
        }
    });
}

pub type EvHook = fn(u32, usize, u64, u64);

pub fn install(ev: EvHook) {
    verif::set_hooks(pre_hook, ev);
}

pub struct Worker<C, R> {
    tx: Sender<Cmd<C>>,
    rx: Receiver<Evt<R>>,
    /// Site the worker is blocked at (`None`: idle or finished).
    pub at: Option<u32>,
    pub busy: bool,
    pub last: Option<Result<R, String>>,
    pub local_id: usize,
    join: Option<std::thread::JoinHandle<()>>,
}

/// Spawns a worker. `init` runs first on the new thread (unmanaged) and returns the per-thread
/// state; `exec` runs each command (managed).
pub fn spawn<C: Send + 'static, R: Send + 'static, S: 'static>(
    name: String,
    stack: usize,
    init: impl FnOnce() -> (S, usize) + Send + 'static,
    exec: impl Fn(&mut S, C) -> R + Send + 'static,
) -> Worker<C, R> {
    let (ctx, wrx) = channel::<Cmd<C>>();
    let (wtx, crx) = channel::<Evt<R>>();
    let (itx, irx) = channel::<usize>();
    let join = std::thread::Builder::new()
        .name(name)
        .stack_size(stack)
        .spawn(move || {
            let (mut st, local_id) = init();
            itx.send(local_id).unwrap();
            let wrx = std::rc::Rc::new(wrx);
            let wtx2 = wtx.clone();
            let wrx2 = wrx.clone();
            LINK.with(|l| {
                *l.borrow_mut() = Some((
                    Box::new(move |s| {
                        let _ = wtx2.send(Evt::AtSite(s));
                    }),
                    Box::new(move || match wrx2.recv() {
                        Ok(Cmd::Go) => {}
                        _ => panic!("scheduler: unexpected command while blocked at a site"),
                    }),
                ))
            });
            loop {
                match wrx.recv() {
                    Ok(Cmd::Run(c)) => {
                        verif::set_managed(true);
                        let r = catch_unwind(AssertUnwindSafe(|| exec(&mut st, c)));
                        verif::set_managed(false);
                        let r = r.map_err(|e| {
                            if let Some(s) = e.downcast_ref::<String>() {
                                s.clone()
                            } else if let Some(s) = e.downcast_ref::<&str>() {
                                s.to_string()
                            } else {
                                "panic".to_string()
                            }
                        });
                        if wtx.send(Evt::Done(r)).is_err() {
                            break;
                        }
                    }
                    Ok(Cmd::Go) => panic!("scheduler: Go while idle"),
                    Ok(Cmd::Quit) | Err(_) => break,
                }
            }
            LINK.with(|l| *l.borrow_mut() = None);
            drop(st);
        })
        .unwrap();
    let local_id = irx.recv().unwrap();
    Worker { tx: ctx, rx: crx, at: None, busy: false, last: None, local_id, join: Some(join) }
}

impl<C, R> Worker<C, R> {
    fn wait(&mut self) {
        match self.rx.recv().expect("worker died") {
            Evt::AtSite(s) => self.at = Some(s),
            Evt::Done(r) => {
                self.at = None;
                self.busy = false;
                self.last = Some(r);
            }
        }
    }
    /// Starts a command; returns when the worker is blocked at its first site or has finished.
    pub fn start(&mut self, c: C) {
        assert!(!self.busy, "start on a busy worker");
        self.busy = true;
        self.last = None;
        self.tx.send(Cmd::Run(c)).unwrap();
        self.wait();
    }
    /// Grants one step.
    pub fn step(&mut self) {
        assert!(self.busy, "step on an idle worker");
        self.tx.send(Cmd::Go).unwrap();
        self.wait();
    }
    pub fn take_result(&mut self) -> Option<Result<R, String>> {
        self.last.take()
    }
    pub fn quit(&mut self) {
        let _ = self.tx.send(Cmd::Quit);
        if let Some(j) = self.join.take() {
            let _ = j.join();
        }
    }
}

/// Small deterministic RNG (splitmix64) so that runs depend only on `VERIF_SEED`.
#[derive(Clone)]
pub struct Rng(pub u64);
impl Rng {
    pub fn new(seed: u64) -> Self {
        Rng(seed.wrapping_mul(0x9E37_79B9_7F4A_7C15) ^ 0xD1B5_4A32_D192_ED03)
    }
    pub fn next(&mut self) -> u64 {
        self.0 = self.0.wrapping_add(0x9E37_79B9_7F4A_7C15);
        let mut z = self.0;
        z = (z ^ (z >> 30)).wrapping_mul(0xBF58_476D_1CE4_E5B9);
        z = (z ^ (z >> 27)).wrapping_mul(0x94D0_49BB_1331_11EB);
        z ^ (z >> 31)
    }
    pub fn below(&mut self, n: usize) -> usize {
        if n == 0 {
            0
        } else {
            (self.next() % n as u64) as usize
        }
    }
    pub fn chance(&mut self, num: u32, den: u32) -> bool {
        (self.next() % den as u64) < num as u64
    }
    pub fn pick<'a, T>(&mut self, v: &'a [T]) -> &'a T {
        &v[self.below(v.len())]
    }
}
