//! The collector's internal queue (C17) and registry list (C18), instantiated through the
//! cfg(circ_verif) shim and driven under the cooperative scheduler with QUEUE / LIST sites as
//! scheduling points.  After every step the recorder dumps the abstract content (walk from head)
//! and the per-call observations that TraceQL.tla needs to linearize each call.
use std::fmt::Write as _;
use std::sync::{Arc, Mutex};

use circ::verif::{self, site, VCollector, VHandle, VList, VQueue};

use crate::sched::{self, Rng, Worker};

static QUEUE: Mutex<Option<Arc<VQueue<u64>>>> = Mutex::new(None);
static LIST: Mutex<Option<Arc<VList>>> = Mutex::new(None);
static COLLECTOR: Mutex<Option<Arc<VCollector>>> = Mutex::new(None);
static SHOWN: Mutex<Vec<(usize, u64)>> = Mutex::new(Vec::new());
static FINALIZED: Mutex<Vec<usize>> = Mutex::new(Vec::new());

thread_local! {
    static ME: std::cell::Cell<usize> = const { std::cell::Cell::new(0) };
    static HANDLE: std::cell::RefCell<Option<VHandle>> = const { std::cell::RefCell::new(None) };
}

pub fn ev_hook(kind: u32, _addr: usize, a: u64, _b: u64) {
    if kind == site::EV_L_FINALIZE {
        FINALIZED.lock().unwrap().push(a as usize);
    }
}

#[derive(Clone, Debug, PartialEq)]
pub enum Op {
    Register,
    Push(u64),
    Pop,
    /// conditional pop with predicate "value is even" (`true`) or "value < bound" (`false`, bound in .1)
    PopIf(bool, u64),
    Insert(usize),
    Delete(usize),
    Traverse,
}
impl Op {
    pub fn name(&self) -> &'static str {
        match self {
            Op::Register => "register",
            Op::Push(_) => "push",
            Op::Pop => "pop",
            Op::PopIf(_, _) => "pop_if",
            Op::Insert(_) => "insert",
            Op::Delete(_) => "delete",
            Op::Traverse => "traverse",
        }
    }
}
#[derive(Clone, Debug, Default)]
pub struct Res {
    pub val: Option<u64>,
    pub seen: Vec<usize>,
    pub stalled: bool,
    pub elem: usize,
}
pub struct WState {
    elems: std::collections::HashMap<usize, usize>,
}
pub fn pred(even: bool, bound: u64, v: u64) -> bool {
    if even {
        v % 2 == 0
    } else {
        v < bound
    }
}
pub fn exec(st: &mut WState, op: Op) -> Res {
    let mut r = Res::default();
    let q = QUEUE.lock().unwrap().clone();
    let l = LIST.lock().unwrap().clone();
    match op {
        Op::Register => {
            let c = COLLECTOR.lock().unwrap().clone().unwrap();
            HANDLE.with(|h| *h.borrow_mut() = Some(c.register()));
            st.elems.clear();
        }
        Op::Push(v) => {
            let g = HANDLE.with(|h| h.borrow().as_ref().unwrap().pin());
            q.unwrap().push(v, &g);
        }
        Op::Pop => {
            let g = HANDLE.with(|h| h.borrow().as_ref().unwrap().pin());
            r.val = q.unwrap().try_pop(&g);
        }
        Op::PopIf(even, bound) => {
            let g = HANDLE.with(|h| h.borrow().as_ref().unwrap().pin());
            let me = ME.with(|m| m.get());
            r.val = q.unwrap().try_pop_if(
                |v: &u64| {
                    SHOWN.lock().unwrap().push((me, *v));
                    pred(even, bound, *v)
                },
                &g,
            );
        }
        Op::Insert(id) => {
            let g = HANDLE.with(|h| h.borrow().as_ref().unwrap().pin());
            r.elem = l.unwrap().insert(id, &g);
            st.elems.insert(id, r.elem);
        }
        Op::Delete(id) => {
            let g = HANDLE.with(|h| h.borrow().as_ref().unwrap().pin());
            let e = *st.elems.get(&id).expect("not my element");
            unsafe { l.unwrap().delete(e, &g) };
        }
        Op::Traverse => {
            let g = HANDLE.with(|h| h.borrow().as_ref().unwrap().pin());
            let (seen, stalled) = l.unwrap().traverse(&g);
            r.seen = seen;
            r.stalled = stalled;
        }
    }
    r
}

#[derive(Clone, Debug, Default)]
pub struct TShadow {
    pub cur: Option<Op>,
    pub nops: usize,
    /// queue: values this call removed from the front / appended at the back (observed per step)
    pub took: Vec<u64>,
    pub put: Vec<u64>,
    pub fronts: Vec<u64>,
    pub empty_seen: bool,
    pub shown: Vec<u64>,
    /// list: entries fully inserted when the traversal began; entries whose delete began before it ended
    pub start_in: Vec<usize>,
    pub gone: Vec<usize>,
}

pub struct Ctl {
    pub ws: Vec<Worker<Op, Res>>,
    pub sh: Vec<TShadow>,
    pub out: Vec<String>,
    pub sc: usize,
    pub line: usize,
    pub panics: Vec<String>,
    pub site_hits: std::collections::BTreeMap<u32, usize>,
    pub op_hits: std::collections::BTreeMap<&'static str, usize>,
    prev_dump: Vec<u64>,
    prev_head: usize,
    /// sentinel nodes retired by completed pops (their memory is handed to the collector)
    retired: Vec<usize>,
    pending_retire: Vec<Vec<usize>>,
    /// list ghost: id -> "in" (insert completed) / "del" (delete started)
    pub lst: std::collections::BTreeMap<usize, &'static str>,
    pub owner: std::collections::BTreeMap<usize, usize>,
    /// `(name, argument, predicate kind, predicate bound)` of the call started by the line being recorded
    pub started: Option<(&'static str, u64, bool, u64)>,
    keep: Vec<(Arc<VCollector>, Option<Arc<VQueue<u64>>>, Option<Arc<VList>>)>,
    pub is_list: bool,
}

impl Ctl {
    pub fn new(n: usize, is_list: bool) -> Self {
        let ws = (0..n)
            .map(|t| {
                sched::spawn(
                    format!("q{}", t),
                    4 << 20,
                    move || {
                        ME.with(|m| m.set(t + 1));
                        (WState { elems: Default::default() }, 0)
                    },
                    exec,
                )
            })
            .collect();
        Ctl { ws, sh: Vec::new(), out: Vec::new(), sc: 0, line: 0, panics: Vec::new(), site_hits: Default::default(), op_hits: Default::default(), prev_dump: Vec::new(), prev_head: 0, retired: Vec::new(), pending_retire: Vec::new(), lst: Default::default(), owner: Default::default(), started: None, keep: Vec::new(), is_list }
    }
    pub fn nt(&self) -> usize {
        self.ws.len()
    }
    pub fn idle(&self, t: usize) -> bool {
        !self.ws[t].busy
    }
    pub fn reset(&mut self, label: &str) {
        let c = Arc::new(VCollector::new());
        let q = if self.is_list { None } else { Some(Arc::new(VQueue::new())) };
        let l = if self.is_list { Some(Arc::new(VList::new())) } else { None };
        *COLLECTOR.lock().unwrap() = Some(c.clone());
        *QUEUE.lock().unwrap() = q.clone();
        *LIST.lock().unwrap() = l.clone();
        // everything of earlier scenarios stays alive: deferred node frees may still be pending
        self.keep.push((c, q, l));
        SHOWN.lock().unwrap().clear();
        FINALIZED.lock().unwrap().clear();
        self.sc += 1;
        self.panics.clear();
        self.prev_dump.clear();
        self.prev_head = 0;
        self.retired.clear();
        self.pending_retire = vec![Vec::new(); self.nt()];
        self.lst.clear();
        self.owner.clear();
        self.sh = (0..self.nt()).map(|_| TShadow::default()).collect();
        for t in 0..self.nt() {
            self.ws[t].start(Op::Register);
            while self.ws[t].busy {
                self.ws[t].step();
            }
            let _ = self.ws[t].take_result();
        }
        self.record("reset", usize::MAX, label, None);
    }
    fn qdump(&self) -> (usize, usize, Vec<(usize, u64)>) {
        match QUEUE.lock().unwrap().as_ref() {
            Some(q) => unsafe { q.dump() },
            None => (0, 0, Vec::new()),
        }
    }
    pub fn start(&mut self, t: usize, op: Op) {
        *self.op_hits.entry(op.name()).or_default() += 1;
        let d: Vec<u64> = self.qdump().2.iter().map(|x| x.1).collect();
        let mut sh = TShadow { cur: Some(op.clone()), nops: self.sh[t].nops + 1, ..Default::default() };
        sh.empty_seen = d.is_empty();
        if let Some(f) = d.first() {
            sh.fronts.push(*f);
        }
        match &op {
            Op::Traverse => {
                sh.start_in = self.lst.iter().filter(|(_, s)| **s == "in").map(|(k, _)| *k).collect();
            }
            Op::Delete(id) => {
                self.lst.insert(*id, "del");
                for o in self.sh.iter_mut() {
                    if matches!(o.cur, Some(Op::Traverse)) {
                        o.gone.push(*id);
                    }
                }
            }
            Op::Insert(id) => {
                self.owner.insert(*id, t);
            }
            _ => {}
        }
        self.sh[t] = sh;
        self.ws[t].start(op.clone());
        self.started = Some(match &op {
            Op::Push(v) => ("push", *v, false, 0),
            Op::Pop => ("pop", 0, false, 0),
            Op::PopIf(pe, pb) => ("pop_if", 0, *pe, *pb),
            Op::Insert(id) => ("insert", *id as u64, false, 0),
            Op::Delete(id) => ("delete", *id as u64, false, 0),
            Op::Traverse => ("traverse", 0, false, 0),
            Op::Register => ("register", 0, false, 0),
        });
        self.after(t, "start", &format!("{:?}", op));
    }
    pub fn step(&mut self, t: usize) {
        if !self.ws[t].busy {
            return;
        }
        let from = self.ws[t].at.unwrap_or(0);
        *self.site_hits.entry(from).or_default() += 1;
        self.ws[t].step();
        self.after(t, "step", &format!("{}", from));
    }
    pub fn finish(&mut self, t: usize) {
        let mut n = 0;
        while self.ws[t].busy && n < 100_000 {
            self.step(t);
            n += 1;
        }
        if self.ws[t].busy {
            self.panics.push(format!("t{} does not finish", t));
        }
    }
    pub fn run(&mut self, t: usize, op: Op) {
        self.start(t, op);
        self.finish(t);
    }
    fn after(&mut self, t: usize, kind: &str, what: &str) {
        // queue: attribute the change of the abstract content in this step to the acting thread
        let (hd, _, nodes) = self.qdump();
        let d: Vec<u64> = nodes.iter().map(|x| x.1).collect();
        let prev = std::mem::replace(&mut self.prev_dump, d.clone());
        let old_head = std::mem::replace(&mut self.prev_head, hd);
        if old_head != 0 && old_head != hd {
            self.pending_retire[t].push(old_head); // this step moved head: the old sentinel is t's to retire
        }
        let mut odd = String::new();
        if d != prev {
            if d.len() == prev.len() + 1 && d[..prev.len()] == prev[..] {
                self.sh[t].put.push(*d.last().unwrap());
            } else if prev.len() == d.len() + 1 && prev[1..] == d[..] {
                self.sh[t].took.push(prev[0]);
            } else {
                odd = format!("{:?}->{:?}", prev, d);
            }
        }
        for s in self.sh.iter_mut() {
            if s.cur.is_some() {
                if d.is_empty() {
                    s.empty_seen = true;
                } else if s.fronts.last() != d.first() {
                    s.fronts.push(d[0]);
                }
            }
        }
        for (who, v) in std::mem::take(&mut *SHOWN.lock().unwrap()) {
            self.sh[who - 1].shown.push(v);
        }
        let mut ret = None;
        if !self.ws[t].busy {
            let done: Vec<usize> = std::mem::take(&mut self.pending_retire[t]);
            self.retired.extend(done);
            if let Some(res) = self.ws[t].take_result() {
                let op = self.sh[t].cur.take();
                match res {
                    Ok(r) => {
                        let sh = &self.sh[t];
                        if let Some(Op::Insert(id)) = &op {
                            self.lst.insert(*id, "in");
                        }
                        let (pe, pb) = match &op {
                            Some(Op::PopIf(e, b)) => (*e as u8, *b),
                            _ => (2, 0),
                        };
                        let arg = match &op {
                            Some(Op::Push(v)) => *v,
                            Some(Op::Insert(i)) | Some(Op::Delete(i)) => *i as u64,
                            _ => 0,
                        };
                        let req: Vec<usize> = sh.start_in.iter().filter(|x| !sh.gone.contains(x)).cloned().collect();
                        ret = Some(format!(
                            "\"op\":\"{}\",\"arg\":{},\"some\":{},\"val\":{},\"pe\":{},\"pb\":{},\"took\":{:?},\"put\":{:?},\"fronts\":{:?},\"empty_seen\":{},\"shown\":{:?},\"seen\":{:?},\"stalled\":{},\"req\":{:?}",
                            op.as_ref().map(|o| o.name()).unwrap_or(""), arg, r.val.is_some(), r.val.unwrap_or(0), pe, pb, sh.took, sh.put, sh.fronts, sh.empty_seen, sh.shown, r.seen, r.stalled, req
                        ));
                    }
                    Err(m) => self.panics.push(format!("t{}: {}", t, m)),
                }
            }
        }
        let w = if odd.is_empty() { what.to_string() } else { format!("{} ODD {}", what, odd) };
        self.record(kind, t, &w, ret);
    }
    pub fn record(&mut self, kind: &str, t: usize, what: &str, ret: Option<String>) {
        self.line += 1;
        let mut s = String::with_capacity(300);
        let _ = write!(s, "{{\"i\":{},\"sc\":{},\"k\":\"{}\",\"t\":{},\"what\":{:?},\"site\":{}", self.line, self.sc, kind, if t == usize::MAX { 0 } else { t + 1 }, what, if t == usize::MAX { 0 } else { self.ws[t].at.unwrap_or(0) });
        if let Some(r) = ret {
            let _ = write!(s, ",\"ret\":{{{}}}", r);
        }
        if let Some((n, a, pe, pb)) = self.started.take() {
            let _ = write!(s, ",\"opn\":\"{}\",\"arg\":{},\"pe\":{},\"pb\":{}", n, a, pe as u8, pb);
        }
        let (h, tl, nodes) = self.qdump();
        let dangling = self.retired.contains(&tl) || self.retired.contains(&h);
        // position of the tail pointer in the chain that starts at the head sentinel (0 = the sentinel itself, -1 = not in it)
        let tailpos: i64 = if tl == h { 0 } else { nodes.iter().position(|x| x.0 == tl).map(|i| i as i64 + 1).unwrap_or(-1) };
        let _ = write!(s, ",\"tailpos\":{},\"sites\":{:?}", tailpos, self.ws.iter().map(|w| w.at.unwrap_or(0)).collect::<Vec<_>>());
        // the call each thread is in (name, entry id)
        let cur: Vec<String> = self
            .sh
            .iter()
            .map(|h| match &h.cur {
                Some(Op::Insert(id)) => format!("{{\"n\":\"insert\",\"id\":{}}}", id),
                Some(Op::Delete(id)) => format!("{{\"n\":\"delete\",\"id\":{}}}", id),
                Some(Op::Traverse) => "{\"n\":\"traverse\",\"id\":0}".to_string(),
                Some(o) => format!("{{\"n\":\"{}\",\"id\":0}}", o.name()),
                None => "{\"n\":\"\",\"id\":0}".to_string(),
            })
            .collect();
        let _ = write!(s, ",\"cur\":[{}]", cur.join(","));
        let _ = write!(s, ",\"odd\":{},\"q\":{:?},\"tail_reachable\":{}", what.contains(" ODD "), nodes.iter().map(|x| x.1).collect::<Vec<_>>(), !dangling);
        let ld = match LIST.lock().unwrap().as_ref() {
            Some(l) => unsafe { l.dump() },
            None => Vec::new(),
        };
        let fin = FINALIZED.lock().unwrap().clone();
        let deleted: Vec<usize> = self.lst.iter().filter(|(_, s)| **s == "del").map(|(k, _)| *k).collect();
        let inserted: Vec<usize> = self.lst.keys().cloned().collect();
        let _ = write!(s, ",\"deleted\":{:?},\"inserted\":{:?}", deleted, inserted);
        let _ = write!(s, ",\"list\":[{}],\"fin\":{:?},\"busy\":{:?}}}", ld.iter().map(|(i, m)| format!("[{},{}]", i, *m as u8)).collect::<Vec<_>>().join(","), fin, self.ws.iter().map(|w| w.busy as u8).collect::<Vec<_>>());
        self.out.push(s);
    }
    pub fn quit(&mut self) {
        for w in self.ws.iter_mut() {
            w.quit();
        }
    }
}

pub fn run_queue_random(ctl: &mut Ctl, rng: &mut Rng, label: &str, max_ops: usize) {
    ctl.reset(label);
    let nt = ctl.nt();
    let mut next_val = [0u64; 8];
    let mut cur = rng.below(nt);
    let p_stay = [20u32, 50, 80][rng.below(3)];
    let mut guard = 0;
    loop {
        guard += 1;
        if guard > 5000 || !ctl.panics.is_empty() {
            break;
        }
        let enabled: Vec<usize> = (0..nt).filter(|&t| !ctl.idle(t) || ctl.sh[t].nops < max_ops).collect();
        if enabled.is_empty() {
            break;
        }
        if !enabled.contains(&cur) || !rng.chance(p_stay, 100) {
            cur = *rng.pick(&enabled);
        }
        if !ctl.idle(cur) {
            ctl.step(cur);
            continue;
        }
        // producers push distinguishable, per-producer increasing values: 100*t + k
        let producer = cur % 2 == 0 || nt == 1;
        let op = if producer && rng.chance(3, 4) {
            next_val[cur] += 1;
            Op::Push(100 * (cur as u64 + 1) + next_val[cur])
        } else if rng.chance(1, 2) {
            Op::Pop
        } else if rng.chance(1, 2) {
            Op::PopIf(true, 0)
        } else {
            Op::PopIf(false, 100 * (1 + rng.below(nt) as u64) + 2)
        };
        ctl.start(cur, op);
    }
    for t in 0..nt {
        ctl.finish(t);
    }
    // drain
    verif::set_class_mask(0);
    for _ in 0..64 {
        if ctl.prev_dump.is_empty() {
            break;
        }
        ctl.run(0, Op::Pop);
    }
    verif::set_class_mask(site::CLASS_QUEUE);
    let m = ctl.panics.join("; ");
    ctl.record(if ctl.panics.is_empty() { "fin" } else { "abort" }, usize::MAX, &m, None);
}

pub fn run_list_random(ctl: &mut Ctl, rng: &mut Rng, label: &str, max_ops: usize) {
    ctl.reset(label);
    let nt = ctl.nt();
    let mut next_id = 1usize;
    // a few entries are present from the start
    verif::set_class_mask(0);
    for t in 0..nt {
        if rng.chance(2, 3) {
            ctl.run(t, Op::Insert(next_id));
            next_id += 1;
        }
    }
    verif::set_class_mask(site::CLASS_LIST);
    for s in ctl.sh.iter_mut() {
        s.nops = 0;
    }
    let mut cur = rng.below(nt);
    let p_stay = [20u32, 50, 80][rng.below(3)];
    let mut guard = 0;
    loop {
        guard += 1;
        if guard > 5000 || !ctl.panics.is_empty() {
            break;
        }
        let enabled: Vec<usize> = (0..nt).filter(|&t| !ctl.idle(t) || ctl.sh[t].nops < max_ops).collect();
        if enabled.is_empty() {
            break;
        }
        if !enabled.contains(&cur) || !rng.chance(p_stay, 100) {
            cur = *rng.pick(&enabled);
        }
        if !ctl.idle(cur) {
            ctl.step(cur);
            continue;
        }
        let mine: Vec<usize> = ctl.lst.iter().filter(|(id, s)| **s == "in" && ctl.owner.get(id) == Some(&cur)).map(|(id, _)| *id).collect();
        let k = rng.below(10);
        let op = if k < 4 {
            Op::Traverse
        } else if k < 7 && !mine.is_empty() {
            Op::Delete(*rng.pick(&mine))
        } else if next_id < 12 {
            next_id += 1;
            Op::Insert(next_id - 1)
        } else {
            Op::Traverse
        };
        ctl.start(cur, op);
    }
    for t in 0..nt {
        ctl.finish(t);
    }
    // clean up: delete everything, traverse until all are unlinked
    verif::set_class_mask(0);
    let left: Vec<(usize, usize)> = ctl.lst.iter().filter(|(_, s)| **s == "in").map(|(id, _)| (*id, ctl.owner[id])).collect();
    for (id, o) in left {
        ctl.run(o, Op::Delete(id));
    }
    for _ in 0..4 {
        ctl.run(0, Op::Traverse);
    }
    verif::set_class_mask(site::CLASS_LIST);
    let m = ctl.panics.join("; ");
    ctl.record(if ctl.panics.is_empty() { "fin" } else { "abort" }, usize::MAX, &m, None);
}
