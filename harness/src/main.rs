//! `circ-conf`: conformance harness for kaist-cp/circ (see /verif/DESIGN.md).
mod alloc;
mod rcrun;
mod rcworld;
mod sched;

use std::io::Write;

#[global_allocator]
static GLOBAL: alloc::Quarantine = alloc::Quarantine;

fn arg<T: std::str::FromStr>(args: &[String], key: &str, default: T) -> T {
    args.iter().position(|a| a == key).and_then(|i| args.get(i + 1)).and_then(|v| v.parse().ok()).unwrap_or(default)
}
fn sarg(args: &[String], key: &str, default: &str) -> String {
    args.iter().position(|a| a == key).and_then(|i| args.get(i + 1)).cloned().unwrap_or_else(|| default.to_string())
}

fn rc_setup() {
    sched::install(rcworld::ev_hook);
    circ::verif::set_class_mask(circ::verif::site::CLASS_RC);
    circ::verif::set_advance_blocked(true);
    circ::verif::set_seal_on_defer(true);
}

fn write_out(path: &str, lines: &[String]) {
    let mut f = std::io::BufWriter::new(std::fs::File::create(path).expect("cannot create output"));
    for l in lines {
        f.write_all(l.as_bytes()).unwrap();
        f.write_all(b"\n").unwrap();
    }
}

fn main() {
    let args: Vec<String> = std::env::args().collect();
    let mode = args.get(1).map(|s| s.as_str()).unwrap_or("help");
    match mode {
        "rc-random" => {
            rc_setup();
            let seed: u64 = arg(&args, "--seed", 1);
            let n: usize = arg(&args, "--n", 100);
            let threads: usize = arg(&args, "--threads", 2);
            let max_ops: usize = arg(&args, "--ops", 5);
            let vocab = sarg(&args, "--vocab", "all");
            let out = sarg(&args, "--out", "trace.ndjson");
            let mut ctl = rcworld::Ctl::new(threads);
            let mut rng = sched::Rng::new(seed);
            let mut aborted = 0;
            for i in 0..n {
                let cfg = rcrun::RandCfg {
                    vocab: rcrun::vocab(&vocab),
                    template: rng.below(rcrun::NTEMPLATE),
                    max_ops,
                    p_adv: [0, 30, 80, 150][rng.below(4)],
                    p_stay: [30, 60, 85][rng.below(3)],
                    ntags: 4,
                    stall: rng.chance(1, 3),
                    residue: if rng.chance(1, 2) { Some(rng.below(16)) } else { None },
                };
                if !rcrun::run_random(&mut ctl, &cfg, &mut rng, &format!("rand:{}:{}:{}", vocab, seed, i)) {
                    aborted += 1;
                }
            }
            write_out(&out, &ctl.out);
            let stats = format!(
                "{{\"scenarios\":{},\"aborted\":{},\"lines\":{},\"sites\":{:?},\"ops\":{:?}}}",
                n,
                aborted,
                ctl.out.len(),
                ctl.site_hits.iter().map(|(k, v)| format!("{}:{}", k, v)).collect::<Vec<_>>(),
                ctl.op_hits.iter().map(|(k, v)| format!("{}:{}", k, v)).collect::<Vec<_>>()
            );
            println!("{}", stats);
            ctl.quit();
        }
        _ => {
            eprintln!("usage: circ-conf rc-random --seed N --n N --threads N --ops N --vocab V --out FILE");
            std::process::exit(2);
        }
    }
}
