//! `circ-conf`: conformance harness for kaist-cp/circ (see /verif/DESIGN.md).
mod alloc;
mod ebrworld;
mod qlworld;
mod rcdirected;
mod rcpairs;
mod rcreplay;
mod rcsys;
mod rcrun;
mod rcworld;
mod sched;
mod stress;
mod vectors;

use std::io::Write;

#[global_allocator]
static GLOBAL: alloc::Quarantine = alloc::Quarantine;

fn arg<T: std::str::FromStr>(args: &[String], key: &str, default: T) -> T {
    args.iter().position(|a| a == key).and_then(|i| args.get(i + 1)).and_then(|v| v.parse().ok()).unwrap_or(default)
}
fn sarg(args: &[String], key: &str, default: &str) -> String {
    args.iter().position(|a| a == key).and_then(|i| args.get(i + 1)).cloned().unwrap_or_else(|| default.to_string())
}

fn rc_setup() {
    sched::install(rcworld::ev_hook);
    circ::verif::set_class_mask(circ::verif::site::CLASS_RC);
    circ::verif::set_advance_blocked(true);
    circ::verif::set_seal_on_defer(true);
}

fn write_out(path: &str, lines: &[String]) {
    let mut f = std::io::BufWriter::new(std::fs::File::create(path).expect("cannot create output"));
    for l in lines {
        f.write_all(l.as_bytes()).unwrap();
        f.write_all(b"\n").unwrap();
    }
}

fn main() {
    real_main();
    // skip destructors of kept-alive collectors, queues and lists: their teardown is not under test
    use std::io::Write as _;
    let _ = std::io::stdout().flush();
    unsafe { libc_exit(0) };
}

extern "C" {
    #[link_name = "_exit"]
    fn libc_exit(code: i32) -> !;
}

fn real_main() {
    let args: Vec<String> = std::env::args().collect();
    let mode = args.get(1).map(|s| s.as_str()).unwrap_or("help");
    match mode {
        "rc-random" => {
            rc_setup();
            let seed: u64 = arg(&args, "--seed", 1);
            // plan: comma separated  vocab:n:threads:ops
            let plan = sarg(&args, "--plan", "all:100:2:5");
            let only: i64 = arg(&args, "--only", -1);
            let tmpl: i64 = arg(&args, "--tmpl", -1);
            let out = sarg(&args, "--out", "trace");
            let mut summary = Vec::new();
            for (k, ent) in plan.split(',').enumerate() {
                let f: Vec<&str> = ent.split(':').collect();
                let nat = f[0].starts_with("nat-");
                let vocab = f[0].trim_start_matches("nat-").to_string();
                let n: usize = f.get(1).and_then(|x| x.parse().ok()).unwrap_or(100);
                let threads: usize = f.get(2).and_then(|x| x.parse().ok()).unwrap_or(2);
                let max_ops: usize = f.get(3).and_then(|x| x.parse().ok()).unwrap_or(5);
                let mut ctl = rcworld::Ctl::new(threads);
                let mut aborted = 0;
                let mut ran = 0;
                for i in 0..n {
                    if only >= 0 && only as usize != i {
                        continue;
                    }
                    let mut rng = sched::Rng::new(seed.wrapping_mul(1_000_003).wrapping_add((k * 100_000 + i) as u64));
                    let cfg = rcrun::RandCfg {
                        vocab: rcrun::vocab(&vocab),
                        template: if tmpl >= 0 { tmpl as usize } else { rng.below(rcrun::NTEMPLATE) },
                        max_ops,
                        p_adv: [0, 30, 80, 150][rng.below(4)],
                        p_stay: [30, 60, 85][rng.below(3)],
                        ntags: 4,
                        stall: rng.chance(1, 3),
                        residue: if rng.chance(1, 2) { Some(rng.below(16)) } else { None },
                        nat,
                    };
                    let label = format!("{}rand:{}:{}:{}:{}:{}:{}", if nat { "nat:" } else { "" }, vocab, seed, k, i, threads, max_ops);
                    ran += 1;
                    if !rcrun::run_random(&mut ctl, &cfg, &mut rng, &label) {
                        aborted += 1;
                    }
                }
                let file = format!("{}.{}.t{}.ndjson", out, k, threads);
                write_out(&file, &ctl.out);
                summary.push(format!(
                    "{{\"file\":{:?},\"vocab\":{:?},\"threads\":{},\"scenarios\":{},\"aborted\":{},\"lines\":{},\"sites\":{{{}}},\"ops\":{{{}}}}}",
                    file,
                    vocab,
                    threads,
                    ran,
                    aborted,
                    ctl.out.len(),
                    ctl.site_hits.iter().map(|(k, v)| format!("\"{}\":{}", k, v)).collect::<Vec<_>>().join(","),
                    ctl.op_hits.iter().map(|(k, v)| format!("\"{}\":{}", k, v)).collect::<Vec<_>>().join(",")
                ));
                ctl.quit();
            }
            println!("{{\"runs\":[{}]}}", summary.join(","));
        }
        "rc-directed" => {
            rc_setup();
            let fam = sarg(&args, "--family", "all");
            let out = sarg(&args, "--out", "dir");
            let mut ctl = rcworld::Ctl::new(2);
            let n = rcdirected::run_family(&mut ctl, &fam);
            let file = format!("{}.t2.ndjson", out);
            write_out(&file, &ctl.out);
            println!(
                "{{\"runs\":[{{\"file\":{:?},\"vocab\":\"directed:{}\",\"threads\":2,\"scenarios\":{},\"aborted\":0,\"lines\":{},\"sites\":{{{}}},\"ops\":{{{}}}}}]}}",
                file,
                fam,
                n,
                ctl.out.len(),
                ctl.site_hits.iter().map(|(k, v)| format!("\"{}\":{}", k, v)).collect::<Vec<_>>().join(","),
                ctl.op_hits.iter().map(|(k, v)| format!("\"{}\":{}", k, v)).collect::<Vec<_>>().join(",")
            );
            ctl.quit();
        }
        "vectors" => {
            let kind = sarg(&args, "--kind", "bits");
            let seed: u64 = arg(&args, "--seed", 1);
            let n: usize = arg(&args, "--n", 200);
            let out = sarg(&args, "--out", "rows.ndjson");
            circ::verif::set_advance_blocked(true);
            let rows = match kind.as_str() {
                "bits" => vectors::bits_rows(seed, n),
                "tagged" => vectors::tagged_rows(seed, n),
                "api" => vectors::api_rows(),
                "ptrord" => vectors::ptrord_rows(),
                "decide" => {
                    rc_setup();
                    let mut ctl = rcworld::Ctl::new(2);
                    let r = rcdirected::decide_rows(&mut ctl);
                    ctl.quit();
                    r
                }
                _ => Vec::new(),
            };
            write_out(&out, &rows);
            println!("{{\"rows\":{},\"file\":{:?},\"kind\":{:?}}}", rows.len(), out, kind);
        }
        "ebr" => {
            sched::install(ebrworld::ev_hook);
            circ::verif::set_class_mask(circ::verif::site::CLASS_EBR);
            std::panic::set_hook(Box::new(|_| {}));
            let seed: u64 = arg(&args, "--seed", 1);
            let n: usize = arg(&args, "--n", 100);
            let threads: usize = arg(&args, "--threads", 3);
            let ops: usize = arg(&args, "--ops", 8);
            let fam = sarg(&args, "--family", "");
            let only: i64 = arg(&args, "--only", -1);
            let out = sarg(&args, "--out", "ebr.ndjson");
            let mut ctl = ebrworld::Ctl::new(threads);
            let mut ran = 0;
            if !fam.is_empty() {
                ran += ebrworld::run_family(&mut ctl, &fam);
            }
            for i in 0..n {
                if only >= 0 && only as usize != i {
                    continue;
                }
                let mut rng = sched::Rng::new(seed.wrapping_mul(1_000_003).wrapping_add(i as u64));
                let exits = rng.chance(1, 3);
                ebrworld::run_random(&mut ctl, &mut rng, &format!("rand:ebr:{}:{}:{}:{}", seed, i, threads, ops), ops, exits);
                ran += 1;
            }
            write_out(&out, &ctl.out);
            println!(
                "{{\"runs\":[{{\"file\":{:?},\"vocab\":\"ebr:{}\",\"threads\":{},\"scenarios\":{},\"aborted\":0,\"lines\":{},\"sites\":{{{}}},\"ops\":{{{}}}}}]}}",
                out,
                fam,
                threads,
                ran,
                ctl.out.len(),
                ctl.site_hits.iter().map(|(k, v)| format!("\"{}\":{}", k, v)).collect::<Vec<_>>().join(","),
                ctl.op_hits.iter().map(|(k, v)| format!("\"{}\":{}", k, v)).collect::<Vec<_>>().join(",")
            );
            ctl.quit();
        }
        "queue" | "list" => {
            let is_list = mode == "list";
            sched::install(qlworld::ev_hook);
            circ::verif::set_class_mask(if is_list { circ::verif::site::CLASS_LIST } else { circ::verif::site::CLASS_QUEUE });
            let seed: u64 = arg(&args, "--seed", 1);
            let n: usize = arg(&args, "--n", 100);
            let threads: usize = arg(&args, "--threads", 3);
            let ops: usize = arg(&args, "--ops", 4);
            let out = sarg(&args, "--out", "ql.ndjson");
            let mut ctl = qlworld::Ctl::new(threads, is_list);
            for i in 0..n {
                let mut rng = sched::Rng::new(seed.wrapping_mul(1_000_003).wrapping_add(i as u64));
                let label = format!("rand:{}:{}:{}:{}:{}", mode, seed, i, threads, ops);
                if is_list {
                    qlworld::run_list_random(&mut ctl, &mut rng, &label, ops);
                } else {
                    qlworld::run_queue_random(&mut ctl, &mut rng, &label, ops);
                }
            }
            write_out(&out, &ctl.out);
            println!(
                "{{\"runs\":[{{\"file\":{:?},\"vocab\":{:?},\"threads\":{},\"scenarios\":{},\"aborted\":0,\"lines\":{},\"sites\":{{{}}},\"ops\":{{{}}}}}]}}",
                out,
                mode,
                threads,
                n,
                ctl.out.len(),
                ctl.site_hits.iter().map(|(k, v)| format!("\"{}\":{}", k, v)).collect::<Vec<_>>().join(","),
                ctl.op_hits.iter().map(|(k, v)| format!("\"{}\":{}", k, v)).collect::<Vec<_>>().join(",")
            );
            ctl.quit();
        }
        "stress" => {
            let kind = sarg(&args, "--kind", "c07");
            let tier = sarg(&args, "--tier", "quick");
            let out = sarg(&args, "--out", "stress.ndjson");
            let exe = std::env::current_exe().unwrap().to_string_lossy().to_string();
            let rows = stress::run_parent(&kind, &tier, &exe);
            write_out(&out, &rows);
            println!("{{\"rows\":{},\"file\":{:?},\"kind\":{:?}}}", rows.len(), out, kind);
        }
        "child-c07" => stress::child_c07(&args[2], args[3].parse().unwrap(), args[4].parse().unwrap()),
        "child-c06" => stress::child_c06(&args[2], args[3].parse().unwrap(), args[4].parse().unwrap(), args[5].parse().unwrap(), args[6].parse().unwrap()),
        "child-c20" => stress::child_c20(args[2].parse().unwrap(), args[3].parse().unwrap(), args[4].parse().unwrap()),
        "child-shape" => stress::child_shape(args[2].parse().unwrap()),
        "child-free" => stress::child_free(args[2].parse().unwrap(), args[3].parse().unwrap()),
        "child-listfree" => stress::child_listfree(args[2].parse().unwrap(), args[3].parse().unwrap()),
        "rc-pairs" => {
            rc_setup();
            // --a / --b : comma separated call names (empty = all); --grace 0|1
            let fa = sarg(&args, "--a", "");
            let fb = sarg(&args, "--b", "");
            let grace: usize = arg(&args, "--grace", 0);
            let out = sarg(&args, "--out", "pairs");
            let sa: Vec<String> = fa.split(',').filter(|x| !x.is_empty()).map(|x| x.to_string()).collect();
            let sb: Vec<String> = fb.split(',').filter(|x| !x.is_empty()).map(|x| x.to_string()).collect();
            let mut ctl = rcworld::Ctl::new(2);
            let n = rcpairs::run_pairs(&mut ctl, &|x| sa.is_empty() || sa.iter().any(|y| y == x), &|x| sb.is_empty() || sb.iter().any(|y| y == x), grace == 1);
            let file = format!("{}.t2.ndjson", out);
            write_out(&file, &ctl.out);
            println!(
                "{{\"runs\":[{{\"file\":{:?},\"vocab\":\"pairs\",\"threads\":2,\"scenarios\":{},\"aborted\":0,\"lines\":{},\"sites\":{{{}}},\"ops\":{{{}}}}}]}}",
                file,
                n,
                ctl.out.len(),
                ctl.site_hits.iter().map(|(k, v)| format!("\"{}\":{}", k, v)).collect::<Vec<_>>().join(","),
                ctl.op_hits.iter().map(|(k, v)| format!("\"{}\":{}", k, v)).collect::<Vec<_>>().join(",")
            );
            ctl.quit();
        }
        "rc-replay" => {
            rc_setup();
            // --in : behaviours generated by TLC (one JSON array per line); --out : trace
            let inp = sarg(&args, "--in", "");
            let out = sarg(&args, "--out", "replay");
            let text = std::fs::read_to_string(&inp).expect("cannot read behaviours");
            let mut ctl = rcworld::Ctl::new(2);
            let st = rcreplay::run_replay(&mut ctl, &text);
            let file = format!("{}.t2.ndjson", out);
            write_out(&file, &ctl.out);
            let div: Vec<String> = st.diverged.iter().take(40).map(|(b, i, w)| format!("{{\"behaviour\":{},\"event\":{},\"why\":{:?}}}", b, i, w)).collect();
            println!(
                "{{\"runs\":[{{\"file\":{:?},\"vocab\":\"generated\",\"threads\":2,\"scenarios\":{},\"aborted\":0,\"lines\":{},\"sites\":{{{}}},\"ops\":{{{}}}}}],\"replay\":{{\"behaviours\":{},\"events\":{},\"followed\":{},\"complete\":{},\"diverged\":{},\"first_divergences\":[{}]}}}}",
                file,
                st.behaviours,
                ctl.out.len(),
                ctl.site_hits.iter().map(|(k, v)| format!("\"{}\":{}", k, v)).collect::<Vec<_>>().join(","),
                ctl.op_hits.iter().map(|(k, v)| format!("\"{}\":{}", k, v)).collect::<Vec<_>>().join(","),
                st.behaviours,
                st.events,
                st.followed,
                st.complete,
                st.diverged.len(),
                div.join(",")
            );
            ctl.quit();
        }
        "rc-sys" => {
            rc_setup();
            // --sit / --a / --b : comma separated names (empty = all); --residue r : epoch residue mod 16 at the start (-1 = as is)
            let lists: Vec<Vec<String>> = ["--sit", "--a", "--b"]
                .iter()
                .map(|k| sarg(&args, k, "").split(',').filter(|x| !x.is_empty()).map(|x| x.to_string()).collect())
                .collect();
            let residue: i64 = arg(&args, "--residue", -1);
            let out = sarg(&args, "--out", "sys");
            let mut ctl = rcworld::Ctl::new(2);
            let sel = |l: &Vec<String>, x: &str| l.is_empty() || l.iter().any(|y| y == x);
            let n = rcsys::run_sys(&mut ctl, &|s, a, b| sel(&lists[0], s) && sel(&lists[1], a) && sel(&lists[2], b), if residue < 0 { None } else { Some(residue as usize) });
            let file = format!("{}.t2.ndjson", out);
            write_out(&file, &ctl.out);
            println!(
                "{{\"runs\":[{{\"file\":{:?},\"vocab\":\"sys\",\"threads\":2,\"scenarios\":{},\"aborted\":0,\"lines\":{},\"sites\":{{{}}},\"ops\":{{{}}}}}]}}",
                file,
                n,
                ctl.out.len(),
                ctl.site_hits.iter().map(|(k, v)| format!("\"{}\":{}", k, v)).collect::<Vec<_>>().join(","),
                ctl.op_hits.iter().map(|(k, v)| format!("\"{}\":{}", k, v)).collect::<Vec<_>>().join(",")
            );
            ctl.quit();
        }
        "debug-free" => {
            sched::install(rcworld::ev_hook);
            circ::verif::set_class_mask(0);
            circ::verif::set_seal_on_defer(true);
            debug_free();
        }
        "rc-free" => {
            // real threads, no scheduler: what a race inside code without scheduling points looks like at the end
            sched::install(rcworld::ev_hook);
            circ::verif::set_class_mask(0);
            let n: usize = arg(&args, "--n", 2000);
            let pairs: usize = arg(&args, "--pairs", 40);
            let rounds: usize = arg(&args, "--rounds", 6);
            let out = sarg(&args, "--out", "free.ndjson");
            let mut rows = Vec::new();
            for i in 0..n {
                let (objs, mp, md, mf, ord, uaf, leaked) = rcworld::free_run_dag(pairs, rounds);
                rows.push(format!(
                    "{{\"fn\":\"free\",\"i\":{},\"objs\":{},\"max_npop\":{},\"max_ndrop\":{},\"max_nfree\":{},\"order_ok\":{},\"uaf\":{},\"leaked\":{}}}",
                    i, objs, mp, md, mf, ord as u8, uaf as u8, leaked
                ));
            }
            write_out(&out, &rows);
            println!("{{\"rows\":{},\"file\":{:?},\"kind\":\"free\"}}", rows.len(), out);
        }
        _ => {
            eprintln!("usage: circ-conf rc-random --seed N --n N --threads N --ops N --vocab V --out FILE");
            std::process::exit(2);
        }
    }
}
#[allow(dead_code)]
pub fn debug_free() {
    for i in 0..8 {
        let e0 = circ::verif::global_epoch();
        let r = rcworld::free_run_dag(40, 6);
        println!("iter {} epoch {} -> {} pending {} res {:?}", i, e0, circ::verif::global_epoch(), unsafe { circ::verif::pending_bags() }, r);
    }
}
