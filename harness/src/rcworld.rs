//! The reference-counting layer under the cooperative scheduler: node type, commands that
//! worker threads execute against the real crate, the controller's shadow (ghost) state, and the
//! recorder that projects the real memory onto the variables of `specs/Circ.tla` after every step.
use std::fmt::Write as _;
use std::sync::atomic::{AtomicU64, AtomicUsize, Ordering::SeqCst};
use std::sync::{Mutex, OnceLock};

use circ::verif::{self, site};
use circ::{AtomicRc, AtomicWeak, Guard, NewRcIter, Rc, RcObject, Snapshot, Weak, WeakSnapshot};

use crate::alloc::{self, MAXOBJ};
use crate::sched::{self, Rng, Worker};

pub const NFIELD: usize = 2;
pub const NCELL: usize = 3;
pub const NWCELL: usize = 2;
pub const NSLOT: usize = 32;

// ------------------------------------------------------------------------------------------
// payload type and its life-cycle counters

pub struct Node {
    pub gen: usize,
    /// free-running mode only: meet the destructor of the partner node before going on
    pub rdv: u8,
    pub id: usize,
    pub next: [AtomicRc<Node>; NFIELD],
    pub wnext: AtomicWeak<Node>,
}

#[allow(clippy::declare_interior_mutable_const)]
const Z: AtomicUsize = AtomicUsize::new(0);
#[allow(clippy::declare_interior_mutable_const)]
const Z64: AtomicU64 = AtomicU64::new(0);
static NPOP: [AtomicUsize; MAXOBJ] = [Z; MAXOBJ];
static NDROP: [AtomicUsize; MAXOBJ] = [Z; MAXOBJ];
static POP_SEQ: [AtomicU64; MAXOBJ] = [Z64; MAXOBJ];
static DROP_SEQ: [AtomicU64; MAXOBJ] = [Z64; MAXOBJ];
static PAYLOAD: [AtomicUsize; MAXOBJ] = [Z; MAXOBJ];
static NEXT_ID: AtomicUsize = AtomicUsize::new(1);
/// Scenario generation: life-cycle events of nodes created by earlier scenarios are ignored.
static GEN: AtomicUsize = AtomicUsize::new(0);

unsafe impl RcObject for Node {
    fn pop_edges(&mut self, out: &mut Vec<Rc<Self>>) {
        if self.id < MAXOBJ && self.gen == GEN.load(SeqCst) {
            if NPOP[self.id].fetch_add(1, SeqCst) == 0 {
                POP_SEQ[self.id].store(alloc::SEQ.fetch_add(1, SeqCst), SeqCst);
            }
        }
        for f in self.next.iter_mut() {
            out.push(f.take());
        }
    }
}
pub static RDV: [AtomicUsize; 8] = [Z; 8];
impl Drop for Node {
    fn drop(&mut self) {
        if self.rdv > 0 {
            let r = &RDV[(self.rdv - 1) as usize % 8];
            let me = r.fetch_add(1, SeqCst);
            let target = (me / 2 + 1) * 2;
            let mut spins = 0;
            while r.load(SeqCst) < target && spins < 20_000 {
                std::hint::spin_loop();
                spins += 1;
            }
        }
        if self.id < MAXOBJ && self.gen == GEN.load(SeqCst) {
            if NDROP[self.id].fetch_add(1, SeqCst) == 0 {
                DROP_SEQ[self.id].store(alloc::SEQ.fetch_add(1, SeqCst), SeqCst);
            }
        }
    }
}

fn new_node(next0: Rc<Node>) -> Rc<Node> {
    let id = NEXT_ID.fetch_add(1, SeqCst);
    assert!(id < MAXOBJ);
    NPOP[id].store(0, SeqCst);
    NDROP[id].store(0, SeqCst);
    let rc = Rc::new(Node { gen: GEN.load(SeqCst), rdv: 0, id, next: [AtomicRc::from(next0), AtomicRc::null()], wnext: AtomicWeak::null() });
    register(id, verif::rc_word(&rc), rc.as_ref().unwrap());
    rc
}
fn register(id: usize, word: usize, payload: &Node) {
    let (addr, _, _) = verif::split_word::<Node>(word);
    alloc::track(id, addr);
    PAYLOAD[id].store(payload as *const Node as usize, SeqCst);
}

/// Free-running mode (no scheduler): `pairs` triples P1 -> S <- P2, the parents handed to two real threads that
/// drop them and collect concurrently; returns `(objects, max npop, max ndrop, max nfree, order ok, uaf, leaked)`.
pub fn free_run_dag(pairs: usize, rounds: usize) -> (usize, usize, usize, usize, bool, bool, usize) {
    alloc::release_all(false);
    alloc::enable(true);
    GEN.fetch_add(1, SeqCst);
    NEXT_ID.store(1, SeqCst);
    for r in RDV.iter() {
        r.store(0, SeqCst);
    }
    let gen = GEN.load(SeqCst);
    const GROUPS: usize = 4;
    let mk = |rdv: u8, next: Rc<Node>| -> Rc<Node> {
        let id = NEXT_ID.fetch_add(1, SeqCst);
        NPOP[id].store(0, SeqCst);
        NDROP[id].store(0, SeqCst);
        let rc = Rc::new(Node { gen, rdv, id, next: [AtomicRc::from(next), AtomicRc::null()], wnext: AtomicWeak::null() });
        register(id, verif::rc_word(&rc), rc.as_ref().unwrap());
        rc
    };
    // GROUPS independent pairs of threads, each pair owning `pairs` triples
    let mut work: Vec<Vec<Rc<Node>>> = Vec::new();
    for g in 0..GROUPS {
        let mut left: Vec<Rc<Node>> = Vec::new();
        let mut right: Vec<Rc<Node>> = Vec::new();
        for _ in 0..pairs {
            let s = mk(0, Rc::null());
            let s2 = s.clone();
            left.push(mk(g as u8 + 1, s));
            right.push(mk(g as u8 + 1, s2));
        }
        work.push(left);
        work.push(right);
    }
    let n = alloc::ntracked();
    let go = std::sync::Arc::new(std::sync::Barrier::new(2 * GROUPS));
    let hs: Vec<_> = work
        .into_iter()
        .map(|mine| {
            let go = go.clone();
            std::thread::spawn(move || {
                go.wait();
                for (i, rc) in mine.into_iter().enumerate() {
                    drop(rc);
                    if i % 4 == 3 {
                        let g = circ::cs();
                        g.flush();
                    }
                }
                let _ = rounds;
                go.wait();
                // all threads collect side by side until everything is gone: the two bags with the two
                // parents of each child tend to be popped by different threads at the same time
                for pass in 0..3000 {
                    let g = circ::cs();
                    g.flush();
                    drop(g);
                    if pass % 4 == 3 && (1..=n).all(|id| alloc::nfree(id) > 0) {
                        break;
                    }
                }
            })
        })
        .collect();
    for h in hs {
        let _ = h.join();
    }
    // the queue also holds the collector's own garbage (one more bag per popped bag under seal-on-defer):
    // keep collecting until every object is gone, or give up after many passes
    for pass in 0..4000 {
        let g = circ::cs();
        g.flush();
        drop(g);
        if pass % 8 == 7 && (1..=n).all(|id| alloc::nfree(id) > 0) {
            break;
        }
    }
    let (mut mp, mut md, mut mf, mut ord, mut uaf, mut leaked) = (0, 0, 0, true, false, 0);
    for id in 1..=n {
        let (np, nd, nf) = (NPOP[id].load(SeqCst), NDROP[id].load(SeqCst), alloc::nfree(id));
        mp = mp.max(np);
        md = md.max(nd);
        mf = mf.max(nf);
        let (ps, ds, fs) = (POP_SEQ[id].load(SeqCst), DROP_SEQ[id].load(SeqCst), alloc::free_seq(id));
        ord &= (nd == 0 || (np > 0 && ps < ds)) && (nf == 0 || (nd > 0 && ds < fs));
        if nf == 0 {
            leaked += 1;
        } else {
            uaf |= unsafe { verif::peek_state::<Node>(alloc::addr_of(id)) } != alloc::POISON;
        }
    }
    (n, mp, md, mf, ord, uaf, leaked)
}

pub fn cells() -> &'static Vec<AtomicRc<Node>> {
    static C: OnceLock<Vec<AtomicRc<Node>>> = OnceLock::new();
    C.get_or_init(|| (0..NCELL).map(|_| AtomicRc::null()).collect())
}
pub fn wcells() -> &'static Vec<AtomicWeak<Node>> {
    static C: OnceLock<Vec<AtomicWeak<Node>>> = OnceLock::new();
    C.get_or_init(|| (0..NWCELL).map(|_| AtomicWeak::null()).collect())
}

// ------------------------------------------------------------------------------------------
// commands

#[derive(Clone, Copy, Debug, PartialEq)]
pub enum RcArg {
    Null(usize),
    Slot(usize),
}
#[derive(Clone, Copy, Debug, PartialEq)]
pub enum SnArg {
    Null(usize),
    Slot(usize),
}
#[derive(Clone, Copy, Debug, PartialEq)]
pub enum Loc {
    Cell(usize),
    RcField(usize, usize),
    SnField(usize, usize),
}
#[derive(Clone, Copy, Debug, PartialEq)]
pub enum WLoc {
    Cell(usize),
    RcField(usize),
    SnField(usize),
}

#[derive(Clone, Debug, PartialEq)]
pub enum Op {
    New { dst: usize, next: RcArg },
    NewMany { n: usize, dsts: Vec<usize> },
    IterNew { it: usize, n: usize },
    IterNext { it: usize, dst: usize },
    IterDrop { it: usize },
    IterAbort { it: usize },
    Clone { src: usize, dst: usize },
    Drop { slot: usize },
    Finalize { slot: usize },
    Snap { src: usize, dst: usize },
    Counted { sn: usize, dst: usize },
    WithTag { slot: usize, tag: usize },
    Load { loc: Loc, dst: usize },
    Store { loc: Loc, val: RcArg },
    Swap { loc: Loc, val: RcArg, dst: usize },
    Cas { loc: Loc, exp: SnArg, val: RcArg, weak: bool, dst_rc: usize, dst_sn: usize },
    CasTag { loc: Loc, exp: SnArg, tag: usize, dst_sn: usize },
    Downgrade { src: usize, dst: usize },
    WeakMany { src: usize, n: usize, dsts: Vec<usize> },
    WClone { src: usize, dst: usize },
    DropWeak { slot: usize },
    WSnap { src: usize, dst: usize },
    SnapDown { sn: usize, dst: usize },
    WCounted { ws: usize, dst: usize },
    Upgrade { src: usize, dst: usize },
    WSUpgrade { ws: usize, dst: usize },
    WLoad { loc: WLoc, dst: usize },
    WStore { loc: WLoc, val: RcArg },
    WSwap { loc: WLoc, val: RcArg, dst: usize },
    WCas { loc: WLoc, exp: SnArg, val: RcArg, weak: bool, dst_wk: usize, dst_ws: usize },
    WCasTag { loc: WLoc, exp: SnArg, tag: usize, dst_ws: usize },
    /// Move a handle to another thread's mailbox (`kind` = 'r' or 'w').
    Give { kind: char, slot: usize, to: usize, to_slot: usize },
    /// Take everything addressed to this thread out of the mailbox.
    Recv,
    Pin,
    Unpin,
    Reactivate,
    Flush,
    Collect,
    /// Drop every handle of the thread (finisher).
    ReleaseAll,
    /// Store null into every root cell (finisher; pinned internally).
    ClearCells,
}

impl Op {
    pub fn name(&self) -> &'static str {
        match self {
            Op::New { .. } => "new",
            Op::NewMany { .. } => "new_many",
            Op::IterNew { .. } => "iter_new",
            Op::IterNext { .. } => "iter_next",
            Op::IterDrop { .. } => "iter_drop",
            Op::IterAbort { .. } => "iter_abort",
            Op::Clone { .. } => "clone",
            Op::Drop { .. } => "drop",
            Op::Finalize { .. } => "finalize",
            Op::Snap { .. } => "snap",
            Op::Counted { .. } => "counted",
            Op::WithTag { .. } => "with_tag",
            Op::Load { .. } => "load",
            Op::Store { .. } => "store",
            Op::Swap { .. } => "swap",
            Op::Cas { weak: false, .. } => "cas",
            Op::Cas { weak: true, .. } => "cas_weak",
            Op::CasTag { .. } => "cas_tag",
            Op::Downgrade { .. } => "downgrade",
            Op::WeakMany { .. } => "weak_many",
            Op::WClone { .. } => "wclone",
            Op::DropWeak { .. } => "dropweak",
            Op::WSnap { .. } => "wsnap",
            Op::SnapDown { .. } => "snapdown",
            Op::WCounted { .. } => "wcounted",
            Op::Upgrade { .. } => "upgrade",
            Op::WSUpgrade { .. } => "wsupgrade",
            Op::WLoad { .. } => "wload",
            Op::WStore { .. } => "wstore",
            Op::WSwap { .. } => "wswap",
            Op::WCas { weak: false, .. } => "wcas",
            Op::WCas { weak: true, .. } => "wcas_weak",
            Op::WCasTag { .. } => "wcas_tag",
            Op::Give { .. } => "give",
            Op::Recv => "recv",
            Op::Pin => "pin",
            Op::Unpin => "unpin",
            Op::Reactivate => "reactivate",
            Op::Flush => "flush",
            Op::Collect => "collect",
            Op::ReleaseAll => "release_all",
            Op::ClearCells => "clear_cells",
        }
    }
}

/// What a command produced: new contents of handle slots, as packed words.
#[derive(Clone, Debug, Default)]
pub struct Res {
    pub ok: bool,
    /// `(kind, slot, word)` with kind in `r`(Rc) `w`(Weak) `s`(Snapshot) `x`(WeakSnapshot)
    pub outs: Vec<(char, usize, usize)>,
    /// free-form scalar results (e.g. iterator remainder)
    pub vals: Vec<usize>,
}

pub struct WState {
    pub t: usize,
    rcs: Vec<Option<Rc<Node>>>,
    wks: Vec<Option<Weak<Node>>>,
    sns: Vec<Option<Snapshot<'static, Node>>>,
    wss: Vec<Option<WeakSnapshot<'static, Node>>>,
    its: Vec<Option<NewRcIter<Node>>>,
    guard: Option<Guard>,
}

impl WState {
    pub fn new(t: usize) -> Self {
        WState {
            t,
            rcs: (0..NSLOT).map(|_| None).collect(),
            wks: (0..NSLOT).map(|_| None).collect(),
            sns: vec![None; NSLOT],
            wss: vec![None; NSLOT],
            its: (0..NSLOT).map(|_| None).collect(),
            guard: None,
        }
    }
    fn take_rc(&mut self, a: RcArg) -> Rc<Node> {
        match a {
            RcArg::Null(tag) => Rc::null().with_tag(tag),
            RcArg::Slot(i) => self.rcs[i].take().expect("empty rc slot"),
        }
    }
    fn take_wk(&mut self, a: RcArg) -> Weak<Node> {
        match a {
            RcArg::Null(tag) => Weak::null().with_tag(tag),
            RcArg::Slot(i) => self.wks[i].take().expect("empty weak slot"),
        }
    }
    fn sn(&self, a: SnArg) -> Snapshot<'static, Node> {
        match a {
            SnArg::Null(tag) => Snapshot::null().with_tag(tag),
            SnArg::Slot(i) => self.sns[i].expect("empty snapshot slot"),
        }
    }
    fn ws(&self, a: SnArg) -> WeakSnapshot<'static, Node> {
        match a {
            SnArg::Null(tag) => WeakSnapshot::null().with_tag(tag),
            SnArg::Slot(i) => self.wss[i].expect("empty weak snapshot slot"),
        }
    }
    fn holder(&self, rc_slot: Option<usize>, sn_slot: Option<usize>) -> *const Node {
        if let Some(i) = rc_slot {
            self.rcs[i].as_ref().expect("empty holder").as_ref().expect("null holder") as *const Node
        } else {
            self.sns[sn_slot.unwrap()].expect("empty holder").as_ref().expect("null holder") as *const Node
        }
    }
    fn loc(&self, l: Loc) -> *const AtomicRc<Node> {
        match l {
            Loc::Cell(c) => &cells()[c] as *const _,
            Loc::RcField(i, f) => unsafe { &(*self.holder(Some(i), None)).next[f] as *const _ },
            Loc::SnField(j, f) => unsafe { &(*self.holder(None, Some(j))).next[f] as *const _ },
        }
    }
    fn wloc(&self, l: WLoc) -> *const AtomicWeak<Node> {
        match l {
            WLoc::Cell(c) => &wcells()[c] as *const _,
            WLoc::RcField(i) => unsafe { &(*self.holder(Some(i), None)).wnext as *const _ },
            WLoc::SnField(j) => unsafe { &(*self.holder(None, Some(j))).wnext as *const _ },
        }
    }
    fn g(&self) -> &'static Guard {
        unsafe { &*(self.guard.as_ref().expect("not pinned") as *const Guard) }
    }
}

fn sn_static(s: Snapshot<'_, Node>) -> Snapshot<'static, Node> {
    unsafe { std::mem::transmute(s) }
}
fn ws_static(s: WeakSnapshot<'_, Node>) -> WeakSnapshot<'static, Node> {
    unsafe { std::mem::transmute(s) }
}

/// Executes one command on the calling worker thread against the real crate.
pub fn exec(st: &mut WState, op: Op) -> Res {
    let mut r = Res { ok: true, ..Default::default() };
    macro_rules! out_rc {
        ($slot:expr, $v:expr) => {{
            let v: Rc<Node> = $v;
            r.outs.push(('r', $slot, verif::rc_word(&v)));
            assert!(st.rcs[$slot].is_none(), "rc slot busy");
            st.rcs[$slot] = Some(v);
        }};
    }
    macro_rules! out_wk {
        ($slot:expr, $v:expr) => {{
            let v: Weak<Node> = $v;
            r.outs.push(('w', $slot, verif::weak_word(&v)));
            assert!(st.wks[$slot].is_none(), "weak slot busy");
            st.wks[$slot] = Some(v);
        }};
    }
    macro_rules! out_sn {
        ($slot:expr, $v:expr) => {{
            let v = sn_static($v);
            r.outs.push(('s', $slot, verif::snapshot_word(&v)));
            st.sns[$slot] = Some(v);
        }};
    }
    macro_rules! out_ws {
        ($slot:expr, $v:expr) => {{
            let v = ws_static($v);
            r.outs.push(('x', $slot, verif::weak_snapshot_word(&v)));
            st.wss[$slot] = Some(v);
        }};
    }
    match op {
        Op::New { dst, next } => {
            let n = st.take_rc(next);
            out_rc!(dst, new_node(n));
        }
        Op::NewMany { n, dsts } => {
            let id = NEXT_ID.fetch_add(1, SeqCst);
            NPOP[id].store(0, SeqCst);
            NDROP[id].store(0, SeqCst);
            let mk = || Node { gen: GEN.load(SeqCst), rdv: 0, id, next: [AtomicRc::null(), AtomicRc::null()], wnext: AtomicWeak::null() };
            let v: Vec<Rc<Node>> = match n {
                0 => {
                    alloc::capture_next(verif::block_layout::<Node>().1, id);
                    let a = Rc::new_many::<0>(mk());
                    let addr = alloc::captured();
                    assert!(addr != 0, "new_many::<0> did not allocate");
                    a.into_iter().collect()
                }
                1 => Rc::new_many::<1>(mk()).into_iter().collect(),
                2 => Rc::new_many::<2>(mk()).into_iter().collect(),
                3 => Rc::new_many::<3>(mk()).into_iter().collect(),
                _ => Rc::new_many::<4>(mk()).into_iter().collect(),
            };
            if let Some(first) = v.first() {
                register(id, verif::rc_word(first), first.as_ref().unwrap());
            }
            r.vals.push(id);
            for (rc, slot) in v.into_iter().zip(dsts) {
                out_rc!(slot, rc);
            }
        }
        Op::IterNew { it, n } => {
            let id = NEXT_ID.fetch_add(1, SeqCst);
            NPOP[id].store(0, SeqCst);
            NDROP[id].store(0, SeqCst);
            let node = Node { gen: GEN.load(SeqCst), rdv: 0, id, next: [AtomicRc::null(), AtomicRc::null()], wnext: AtomicWeak::null() };
            alloc::capture_next(verif::block_layout::<Node>().1, id);
            let iter = Rc::new_many_iter(node, n);
            let addr = alloc::captured();
            assert!(addr != 0, "new_many_iter did not allocate");
            let w = addr;
            r.vals.push(id);
            r.vals.push(w);
            st.its[it] = Some(iter);
        }
        Op::IterNext { it, dst } => match st.its[it].as_mut().expect("no iter").next() {
            Some(rc) => {
                if PAYLOAD[rc.as_ref().unwrap().id].load(SeqCst) == 0 {
                    PAYLOAD[rc.as_ref().unwrap().id].store(rc.as_ref().unwrap() as *const Node as usize, SeqCst);
                }
                out_rc!(dst, rc)
            }
            None => r.ok = false,
        },
        Op::IterDrop { it } => drop(st.its[it].take().expect("no iter")),
        Op::IterAbort { it } => st.its[it].take().expect("no iter").abort(st.g()),
        Op::Clone { src, dst } => {
            let c = st.rcs[src].as_ref().expect("empty").clone();
            out_rc!(dst, c);
        }
        Op::Drop { slot } => drop(st.rcs[slot].take().expect("empty")),
        Op::Finalize { slot } => st.rcs[slot].take().expect("empty").finalize(st.g()),
        Op::Snap { src, dst } => {
            let s = st.rcs[src].as_ref().expect("empty").snapshot(st.g());
            out_sn!(dst, s);
        }
        Op::Counted { sn, dst } => {
            let c = st.sns[sn].expect("empty").counted();
            out_rc!(dst, c);
        }
        Op::WithTag { slot, tag } => {
            let v = st.rcs[slot].take().expect("empty").with_tag(tag);
            out_rc!(slot, v);
        }
        Op::Load { loc, dst } => {
            let s = unsafe { &*st.loc(loc) }.load(SeqCst, st.g());
            out_sn!(dst, s);
        }
        Op::Store { loc, val } => {
            let l = st.loc(loc);
            let v = st.take_rc(val);
            unsafe { &*l }.store(v, SeqCst, st.g());
        }
        Op::Swap { loc, val, dst } => {
            let l = st.loc(loc);
            let v = st.take_rc(val);
            let old = unsafe { &*l }.swap(v, SeqCst);
            out_rc!(dst, old);
        }
        Op::Cas { loc, exp, val, weak, dst_rc, dst_sn } => {
            let l = unsafe { &*st.loc(loc) };
            let e = st.sn(exp);
            let v = st.take_rc(val);
            let res = if weak {
                l.compare_exchange_weak(e, v, SeqCst, SeqCst, st.g())
            } else {
                l.compare_exchange(e, v, SeqCst, SeqCst, st.g())
            };
            match res {
                Ok(old) => out_rc!(dst_rc, old),
                Err(e) => {
                    r.ok = false;
                    out_rc!(dst_rc, e.desired);
                    out_sn!(dst_sn, e.current);
                }
            }
        }
        Op::CasTag { loc, exp, tag, dst_sn } => {
            let l = unsafe { &*st.loc(loc) };
            let e = st.sn(exp);
            match l.compare_exchange_tag(e, tag, SeqCst, SeqCst, st.g()) {
                Ok(prev) => out_sn!(dst_sn, prev),
                Err(e) => {
                    r.ok = false;
                    r.vals.push(verif::snapshot_word(&e.desired));
                    out_sn!(dst_sn, e.current);
                }
            }
        }
        Op::Downgrade { src, dst } => {
            let w = st.rcs[src].as_ref().expect("empty").downgrade();
            out_wk!(dst, w);
        }
        Op::WeakMany { src, n, dsts } => {
            let rc = st.rcs[src].as_ref().expect("empty");
            let v: Vec<Weak<Node>> = match n {
                0 => rc.weak_many::<0>().into_iter().collect(),
                1 => rc.weak_many::<1>().into_iter().collect(),
                2 => rc.weak_many::<2>().into_iter().collect(),
                _ => rc.weak_many::<3>().into_iter().collect(),
            };
            for (w, slot) in v.into_iter().zip(dsts) {
                out_wk!(slot, w);
            }
        }
        Op::WClone { src, dst } => {
            let w = st.wks[src].as_ref().expect("empty").clone();
            out_wk!(dst, w);
        }
        Op::DropWeak { slot } => drop(st.wks[slot].take().expect("empty")),
        Op::WSnap { src, dst } => {
            let s = st.wks[src].as_ref().expect("empty").snapshot(st.g());
            out_ws!(dst, s);
        }
        Op::SnapDown { sn, dst } => {
            let s = st.sns[sn].expect("empty").downgrade();
            out_ws!(dst, s);
        }
        Op::WCounted { ws, dst } => {
            let w = st.wss[ws].expect("empty").counted();
            out_wk!(dst, w);
        }
        Op::Upgrade { src, dst } => match st.wks[src].as_ref().expect("empty").upgrade() {
            Some(rc) => out_rc!(dst, rc),
            None => r.ok = false,
        },
        Op::WSUpgrade { ws, dst } => match st.wss[ws].expect("empty").upgrade() {
            Some(s) => out_sn!(dst, s),
            None => r.ok = false,
        },
        Op::WLoad { loc, dst } => {
            let s = unsafe { &*st.wloc(loc) }.load(SeqCst, st.g());
            out_ws!(dst, s);
        }
        Op::WStore { loc, val } => {
            let l = st.wloc(loc);
            let v = st.take_wk(val);
            unsafe { &*l }.store(v, SeqCst, st.g());
        }
        Op::WSwap { loc, val, dst } => {
            let l = st.wloc(loc);
            let v = st.take_wk(val);
            let old = unsafe { &*l }.swap(v, SeqCst);
            out_wk!(dst, old);
        }
        Op::WCas { loc, exp, val, weak, dst_wk, dst_ws } => {
            let l = unsafe { &*st.wloc(loc) };
            let e = st.ws(exp);
            let v = st.take_wk(val);
            let res = if weak {
                l.compare_exchange_weak(e, v, SeqCst, SeqCst, st.g())
            } else {
                l.compare_exchange(e, v, SeqCst, SeqCst, st.g())
            };
            match res {
                Ok(old) => out_wk!(dst_wk, old),
                Err(e) => {
                    r.ok = false;
                    out_wk!(dst_wk, e.desired);
                    out_ws!(dst_ws, e.current);
                }
            }
        }
        Op::WCasTag { loc, exp, tag, dst_ws } => {
            let l = unsafe { &*st.wloc(loc) };
            let e = st.ws(exp);
            match l.compare_exchange_tag(e, tag, SeqCst, SeqCst, st.g()) {
                Ok(prev) => out_ws!(dst_ws, prev),
                Err(e) => {
                    r.ok = false;
                    r.vals.push(verif::weak_snapshot_word(&e.desired));
                    out_ws!(dst_ws, e.current);
                }
            }
        }
        Op::Give { kind, slot, to, to_slot } => {
            let mut m = MAILBOX.lock().unwrap();
            if kind == 'r' {
                m.push((to, to_slot, st.rcs[slot].take(), None));
            } else {
                m.push((to, to_slot, None, st.wks[slot].take()));
            }
        }
        Op::Recv => {
            let mut m = MAILBOX.lock().unwrap();
            let mut i = 0;
            while i < m.len() {
                if m[i].0 == st.t {
                    let (_, slot, rc, wk) = m.remove(i);
                    if let Some(rc) = rc {
                        st.rcs[slot] = Some(rc);
                    }
                    if let Some(wk) = wk {
                        st.wks[slot] = Some(wk);
                    }
                } else {
                    i += 1;
                }
            }
        }
        Op::Pin => {
            assert!(st.guard.is_none());
            st.guard = Some(circ::cs());
        }
        Op::Unpin => {
            st.sns.iter_mut().for_each(|s| *s = None);
            st.wss.iter_mut().for_each(|s| *s = None);
            drop(st.guard.take().expect("not pinned"));
        }
        Op::Reactivate => {
            st.sns.iter_mut().for_each(|s| *s = None);
            st.wss.iter_mut().for_each(|s| *s = None);
            st.guard.as_mut().expect("not pinned").reactivate();
        }
        Op::Flush => st.g().flush(),
        Op::Collect => {
            // one collect() pops at most 16 bags; repeat until a pass finds fewer than that expired
            for _ in 0..64 {
                let before = POPS.load(SeqCst);
                let g = circ::cs();
                g.flush();
                drop(g);
                if POPS.load(SeqCst) - before < 16 {
                    break;
                }
            }
        }
        Op::ReleaseAll => {
            st.sns.iter_mut().for_each(|s| *s = None);
            st.wss.iter_mut().for_each(|s| *s = None);
            st.guard = None;
            for s in st.its.iter_mut() {
                *s = None;
            }
            for s in st.rcs.iter_mut() {
                *s = None;
            }
            for s in st.wks.iter_mut() {
                *s = None;
            }
        }
        Op::ClearCells => {
            let g = circ::cs();
            for c in cells().iter() {
                c.store(Rc::null(), SeqCst, &g);
            }
            for c in wcells().iter() {
                c.store(Weak::null(), SeqCst, &g);
            }
            drop(g);
        }
    }
    r
}

/// Handles in transit between worker threads.
static MAILBOX: Mutex<Vec<(usize, usize, Option<Rc<Node>>, Option<Weak<Node>>)>> = Mutex::new(Vec::new());

// ------------------------------------------------------------------------------------------
// events from the library hooks

static EVENTS: Mutex<Vec<(u32, usize, u64, u64, usize)>> = Mutex::new(Vec::new());

static POPS: AtomicUsize = AtomicUsize::new(0);

pub fn ev_hook(kind: u32, addr: usize, a: u64, b: u64) {
    if kind == site::EV_POP_BAG {
        POPS.fetch_add(1, SeqCst);
        return;
    }
    if kind >= site::EV_PIN {
        return;
    }
    if let Ok(mut e) = EVENTS.lock() {
        e.push((kind, addr, a, b, verif::global_epoch()));
    }
}

// ------------------------------------------------------------------------------------------
// controller: shadow state + recorder

#[derive(Clone, Copy, Debug, PartialEq, Default)]
pub struct Hnd {
    pub obj: usize,
    pub tag: usize,
    pub ts: usize,
    pub word: usize,
}

#[derive(Clone, Debug, Default)]
pub struct Shadow {
    pub rcs: Vec<Option<Hnd>>,
    pub wks: Vec<Option<Hnd>>,
    pub sns: Vec<Option<Hnd>>,
    pub wss: Vec<Option<Hnd>>,
    /// `(object, remaining shares)`
    pub its: Vec<Option<(usize, usize)>>,
    pub pinned: bool,
    pub nops: usize,
    pub cur: Option<Op>,
}

#[derive(Clone, Debug, PartialEq)]
pub struct Task {
    pub kind: &'static str,
    pub obj: usize,
    pub ep: usize,
}

#[derive(Clone, Debug, Default)]
pub struct ObjView {
    pub s: u32,
    pub w: u32,
    pub d: bool,
    pub k: bool,
    pub e: u32,
    pub life: &'static str,
    pub npop: usize,
    pub ndrop: usize,
    pub nfree: usize,
    pub order_ok: bool,
    pub uaf: bool,
}

pub struct Ctl {
    pub ws: Vec<Worker<Op, Res>>,
    pub sh: Vec<Shadow>,
    pub tasks: Vec<Task>,
    pub out: Vec<String>,
    pub sc: usize,
    pub line: usize,
    pub steps: usize,
    pub nobj_base: usize,
    pub panics: Vec<String>,
    pub evbuf: Vec<String>,
    pub site_hits: std::collections::BTreeMap<u32, usize>,
    pub op_hits: std::collections::BTreeMap<&'static str, usize>,
    pub log_enabled: bool,
    /// skip lines whose projected state equals the previous line's (finisher phases)
    pub dedupe: bool,
    last_body: String,
    pub last_res: Res,
    /// handles in transit between threads: `(to, slot, kind, handle)`
    pub mail: Vec<(usize, usize, char, Hnd)>,
    /// JSON description of the arguments of the call in progress, per thread
    pub cur_args: Vec<String>,
    /// name and arguments of the call started by the line being recorded
    pub started: Option<(&'static str, String)>,
}

pub fn spawn_workers(n: usize) -> Vec<Worker<Op, Res>> {
    (0..n)
        .map(|t| {
            sched::spawn(
                format!("w{}", t),
                8 << 20,
                move || {
                    drop(circ::cs()); // register the participant
                    (WState::new(t), verif::local_id())
                },
                exec,
            )
        })
        .collect()
}

impl Ctl {
    pub fn new(nthreads: usize) -> Self {
        let _ = cells();
        let _ = wcells();
        alloc::STATE_OFF.store(verif::block_layout::<Node>().0, SeqCst);
        Ctl {
            ws: spawn_workers(nthreads),
            sh: Vec::new(),
            tasks: Vec::new(),
            out: Vec::new(),
            sc: 0,
            line: 0,
            steps: 0,
            nobj_base: 0,
            panics: Vec::new(),
            evbuf: Vec::new(),
            site_hits: Default::default(),
            op_hits: Default::default(),
            log_enabled: true,
            dedupe: false,
            last_body: String::new(),
            last_res: Res::default(),
            mail: Vec::new(),
            cur_args: vec![String::new(); nthreads],
            started: None,
        }
    }

    /// Starts a new scenario: fresh shadow, fresh object ids, quarantine emptied.
    pub fn reset(&mut self, label: &str) {
        // blocks are really freed only if the previous scenario ended clean; otherwise deferred
        // functions of that scenario may still run later and must find their memory intact
        let n = alloc::ntracked();
        let clean = self.tasks.is_empty() && self.panics.is_empty() && (1..=n).all(|id| alloc::nfree(id) > 0) && self.all_idle();
        if clean {
            Self::drain_junk();
        }
        alloc::release_all(clean);
        GEN.fetch_add(1, SeqCst);
        MAILBOX.lock().unwrap().clear();
        alloc::enable(true);
        NEXT_ID.store(1, SeqCst);
        for i in 0..MAXOBJ {
            PAYLOAD[i].store(0, SeqCst);
            NPOP[i].store(0, SeqCst);
            NDROP[i].store(0, SeqCst);
        }
        EVENTS.lock().unwrap().clear();
        self.sh = (0..self.ws.len())
            .map(|_| Shadow {
                rcs: vec![None; NSLOT],
                wks: vec![None; NSLOT],
                sns: vec![None; NSLOT],
                wss: vec![None; NSLOT],
                its: vec![None; NSLOT],
                ..Default::default()
            })
            .collect();
        self.tasks.clear();
        self.sc += 1;
        self.steps = 0;
        self.panics.clear();
        self.record("reset", 0, label, None);
    }

    /// Every bag popped from the global queue retires a queue node, which (with seal-on-defer) becomes a new
    /// one-entry bag: the queue never gets shorter, and after some hundred scenarios a collection no longer
    /// reaches the bags of the scenario at hand.  Between scenarios (nothing of the reference-counting layer is
    /// pending) the controller empties the queue with sealing off, and restores the epoch residue.
    fn drain_junk() {
        if unsafe { verif::pending_bags() } < 8 {
            return;
        }
        let residue = verif::global_epoch() % 16;
        verif::set_seal_on_defer(false);
        for _ in 0..64 {
            for _ in 0..3 {
                verif::force_advance();
            }
            for _ in 0..4096 {
                let before = unsafe { verif::pending_bags() };
                let g = circ::cs();
                g.flush();
                drop(g);
                if unsafe { verif::pending_bags() } + 8 > before {
                    break;
                }
            }
            if unsafe { verif::pending_bags() } < 3 {
                break;
            }
        }
        if std::env::var("DBG_DRAIN").is_ok() { eprintln!("drain: left {:?} at {}", unsafe { verif::pending_bag_epochs() }, verif::global_epoch()); }
        verif::set_seal_on_defer(true);
        let mut n = 0;
        while verif::global_epoch() % 16 != residue && n < 32 {
            verif::force_advance();
            n += 1;
        }
    }

    fn hnd(word: usize) -> Hnd {
        let (addr, tag, ts) = verif::split_word::<Node>(word);
        Hnd { obj: if addr == 0 { 0 } else { alloc::id_of(addr) }, tag, ts, word }
    }

    pub fn idle(&self, t: usize) -> bool {
        !self.ws[t].busy
    }
    pub fn all_idle(&self) -> bool {
        self.ws.iter().all(|w| !w.busy)
    }

    /// Starts `op` on thread `t` (runs up to its first scheduling point).
    pub fn start(&mut self, t: usize, op: Op) {
        *self.op_hits.entry(op.name()).or_default() += 1;
        self.cur_args[t] = self.args_json(t, &op);
        self.sh[t].cur = Some(op.clone());
        self.sh[t].nops += 1;
        self.ws[t].start(op.clone());
        self.started = Some((op.name(), self.cur_args[t].clone()));
        self.after(t, "start", &format!("{:?}", op));
    }
    /// Grants one step to `t`.
    pub fn step(&mut self, t: usize) {
        if !self.ws[t].busy {
            return;
        }
        let from = self.ws[t].at.unwrap_or(0);
        *self.site_hits.entry(from).or_default() += 1;
        self.ws[t].step();
        self.after(t, "step", &format!("{}", from));
    }
    /// Runs `t` until it is blocked at `target` (not yet performed) or has finished.
    pub fn run_to(&mut self, t: usize, target: u32) -> bool {
        let mut n = 0;
        while self.ws[t].busy && self.ws[t].at != Some(target) {
            self.step(t);
            n += 1;
            if n > 100_000 {
                return false;
            }
        }
        self.ws[t].busy
    }
    /// Runs `t` until it has performed the access guarded by `target` (or finished).
    pub fn run_through(&mut self, t: usize, target: u32) {
        if self.run_to(t, target) {
            self.step(t);
        }
    }
    pub fn finish(&mut self, t: usize) {
        let mut n = 0;
        while self.ws[t].busy {
            self.step(t);
            n += 1;
            if n > 200_000 {
                self.panics.push(format!("t{} does not finish its call", t));
                return;
            }
        }
    }
    pub fn run(&mut self, t: usize, op: Op) -> Res {
        self.start(t, op);
        self.finish(t);
        self.last_res.clone()
    }
    pub fn advance(&mut self) -> bool {
        let before = verif::global_epoch();
        let after = verif::force_advance();
        self.after(usize::MAX, "adv", if after != before { "ok" } else { "refused" });
        after != before
    }
    pub fn advance_to_residue(&mut self, r: usize) {
        let mut n = 0;
        while verif::global_epoch() % 16 != r % 16 && n < 64 {
            verif::force_advance();
            n += 1;
        }
    }

    fn after(&mut self, t: usize, kind: &str, what: &str) {
        self.steps += 1;
        // library events of this step -> task list
        let evs: Vec<_> = std::mem::take(&mut *EVENTS.lock().unwrap());
        for (k, addr, a, b, gep) in evs {
            let id = alloc::id_of(addr);
            match k {
                site::EV_DEFER_DESTRUCT => {
                    self.tasks.push(Task { kind: "destruct", obj: id, ep: gep });
                    self.evbuf.push(format!("defer_destruct:{}:{}", id, a));
                }
                site::EV_DEFER_DEALLOC => {
                    self.tasks.push(Task { kind: "dealloc", obj: id, ep: gep });
                    self.evbuf.push(format!("defer_dealloc:{}", id));
                }
                site::EV_EXEC_DESTRUCT | site::EV_EXEC_DEALLOC => {
                    let kind = if k == site::EV_EXEC_DESTRUCT { "destruct" } else { "dealloc" };
                    if let Some(p) = self.tasks.iter().position(|x| x.kind == kind && x.obj == id) {
                        let tk = self.tasks.remove(p);
                        self.evbuf.push(format!("exec_{}:{}:sealed{}:at{}", kind, id, tk.ep, gep));
                    } else {
                        self.evbuf.push(format!("exec_{}:{}:untracked", kind, id));
                    }
                }
                site::EV_DG_DECIDE => self.evbuf.push(format!(
                    "decide:{}:depth{}:ne{}:cur{}:{}",
                    id,
                    a >> 32,
                    a & 0xffff,
                    b >> 1,
                    if b & 1 == 1 { "imm" } else { "defer" }
                )),
                site::EV_DG_CHILD => self.evbuf.push(format!("child:{}:e{}:s{}", id, a, b)),
                site::EV_DEALLOC => self.evbuf.push(format!("dealloc:{}", id)),
                _ => {}
            }
        }
        let mut ret: Option<String> = None;
        if t != usize::MAX && !self.ws[t].busy {
            // the call finished in this step: book its results into the shadow
            if let Some(res) = self.ws[t].take_result() {
                match res {
                    Ok(r) => {
                        ret = Some(self.book(t, &r));
                        self.last_res = r;
                    }
                    Err(msg) => {
                        self.panics.push(format!("t{}: {}", t, msg));
                        ret = Some(format!("\"op\":\"panic\",\"ok\":false,{},\"outs\":[],\"nout\":0,\"xtag\":0,\"xts\":0,\"panic\":{:?}", self.cur_args[t], msg));
                        self.sh[t].cur = None;
                    }
                }
            }
        }
        self.record(kind, t, what, ret);
    }

    /// Arguments of a call, resolved against the shadow state at the moment the call starts.
    fn args_json(&self, t: usize, op: &Op) -> String {
        let sh = &self.sh[t];
        let h2 = |h: Option<Hnd>| -> String {
            let h = h.unwrap_or_default();
            format!("{{\"o\":{},\"tag\":{},\"ts\":{}}}", h.obj, h.tag, h.ts)
        };
        let rcarg = |a: &RcArg, v: &Vec<Option<Hnd>>| -> String {
            match a {
                RcArg::Null(tag) => format!("{{\"o\":0,\"tag\":{},\"ts\":0}}", tag & 7),
                RcArg::Slot(i) => h2(v[*i]),
            }
        };
        let snarg = |a: &SnArg, v: &Vec<Option<Hnd>>| -> String {
            match a {
                SnArg::Null(tag) => format!("{{\"o\":0,\"tag\":{},\"ts\":0}}", tag & 7),
                SnArg::Slot(i) => h2(v[*i]),
            }
        };
        let loc = |l: &Loc| -> String {
            match l {
                Loc::Cell(c) => format!("{{\"k\":\"c\",\"o\":{},\"f\":0}}", c + 1),
                Loc::RcField(i, f) => format!("{{\"k\":\"f\",\"o\":{},\"f\":{}}}", sh.rcs[*i].map(|h| h.obj).unwrap_or(0), f + 1),
                Loc::SnField(j, f) => format!("{{\"k\":\"f\",\"o\":{},\"f\":{}}}", sh.sns[*j].map(|h| h.obj).unwrap_or(0), f + 1),
            }
        };
        let wloc = |l: &WLoc| -> String {
            match l {
                WLoc::Cell(c) => format!("{{\"k\":\"c\",\"o\":{},\"f\":0}}", c + 1),
                WLoc::RcField(i) => format!("{{\"k\":\"f\",\"o\":{},\"f\":0}}", sh.rcs[*i].map(|h| h.obj).unwrap_or(0)),
                WLoc::SnField(j) => format!("{{\"k\":\"f\",\"o\":{},\"f\":0}}", sh.sns[*j].map(|h| h.obj).unwrap_or(0)),
            }
        };
        let tgt = |h: Option<Hnd>| -> String {
            let o = h.map(|h| h.obj).unwrap_or(0);
            let d0 = if o != 0 && o <= self.nobj() { let v = self.view(o); v.d || v.life != "live" } else { false };
            format!("\"tgt\":{},\"d0\":{}", o, d0)
        };
        let nul = "{\"k\":\"n\",\"o\":0,\"f\":0}".to_string();
        let z = "{\"o\":0,\"tag\":0,\"ts\":0}".to_string();
        let (tg, l, e, d, tag) = match op {
            Op::Upgrade { src, .. } | Op::WClone { src, .. } | Op::WSnap { src, .. } => (tgt(sh.wks[*src]), nul.clone(), z.clone(), z.clone(), 0),
            Op::WSUpgrade { ws, .. } | Op::WCounted { ws, .. } => (tgt(sh.wss[*ws]), nul.clone(), z.clone(), z.clone(), 0),
            Op::Clone { src, .. } | Op::Snap { src, .. } | Op::Downgrade { src, .. } => (tgt(sh.rcs[*src]), nul.clone(), z.clone(), z.clone(), 0),
            Op::WeakMany { src, n, .. } => (tgt(sh.rcs[*src]), nul.clone(), z.clone(), z.clone(), *n),
            Op::Drop { slot } | Op::Finalize { slot } | Op::WithTag { slot, .. } => (tgt(sh.rcs[*slot]), nul.clone(), z.clone(), z.clone(), 0),
            Op::DropWeak { slot } => (tgt(sh.wks[*slot]), nul.clone(), z.clone(), z.clone(), 0),
            Op::Counted { sn, .. } | Op::SnapDown { sn, .. } => (tgt(sh.sns[*sn]), nul.clone(), z.clone(), z.clone(), 0),
            Op::Load { loc: l, .. } => (tgt(None), loc(l), z.clone(), z.clone(), 0),
            Op::Store { loc: l, val } | Op::Swap { loc: l, val, .. } => (tgt(None), loc(l), z.clone(), rcarg(val, &sh.rcs), 0),
            Op::Cas { loc: l, exp, val, .. } => (tgt(None), loc(l), snarg(exp, &sh.sns), rcarg(val, &sh.rcs), 0),
            Op::CasTag { loc: l, exp, tag, .. } => (tgt(None), loc(l), snarg(exp, &sh.sns), z.clone(), *tag & 7),
            Op::WLoad { loc: l, .. } => (tgt(None), wloc(l), z.clone(), z.clone(), 0),
            Op::WStore { loc: l, val } | Op::WSwap { loc: l, val, .. } => (tgt(None), wloc(l), z.clone(), rcarg(val, &sh.wks), 0),
            Op::WCas { loc: l, exp, val, .. } => (tgt(None), wloc(l), snarg(exp, &sh.wss), rcarg(val, &sh.wks), 0),
            Op::WCasTag { loc: l, exp, tag, .. } => (tgt(None), wloc(l), snarg(exp, &sh.wss), z.clone(), *tag & 7),
            // bulk calls: the number of owners asked for travels in `ntag`, the iterator's object in `tgt`
            Op::NewMany { n, .. } | Op::IterNew { n, .. } => (tgt(None), nul.clone(), z.clone(), z.clone(), *n),
            Op::IterNext { it, .. } | Op::IterDrop { it } | Op::IterAbort { it } => {
                let o = sh.its[*it].map(|(o, _)| o).unwrap_or(0);
                (format!("\"tgt\":{},\"d0\":false", o), nul.clone(), z.clone(), z.clone(), 0)
            }
            _ => (tgt(None), nul.clone(), z.clone(), z.clone(), 0),
        };
        format!("{},\"loc\":{},\"exp\":{},\"des\":{},\"ntag\":{}", tg, l, e, d, tag)
    }

    /// Applies a finished call's effect to the ghost state; returns a JSON fragment describing
    /// the response.
    fn book(&mut self, t: usize, r: &Res) -> String {
        let op = self.sh[t].cur.take().expect("no call in progress");
        let sh = &mut self.sh[t];
        let mut consumed_rc = |a: &RcArg, sh: &mut Shadow| {
            if let RcArg::Slot(i) = a {
                sh.rcs[*i] = None;
            }
        };
        match &op {
            Op::New { next, .. } => consumed_rc(next, sh),
            Op::Drop { slot } | Op::Finalize { slot } => sh.rcs[*slot] = None,
            Op::WithTag { slot, .. } => sh.rcs[*slot] = None,
            Op::Store { val, .. } | Op::Swap { val, .. } | Op::Cas { val, .. } => consumed_rc(val, sh),
            Op::WStore { val, .. } | Op::WSwap { val, .. } | Op::WCas { val, .. } => {
                if let RcArg::Slot(i) = val {
                    sh.wks[*i] = None;
                }
            }
            Op::DropWeak { slot } => sh.wks[*slot] = None,
            Op::IterNew { it, n } => sh.its[*it] = Some((r.vals[0], *n)),
            Op::IterNext { it, .. } => {
                if r.ok {
                    if let Some(x) = sh.its[*it].as_mut() {
                        x.1 -= 1;
                    }
                }
            }
            Op::IterDrop { it } | Op::IterAbort { it } => sh.its[*it] = None,
            Op::Give { kind, slot, to, to_slot } => {
                let h = if *kind == 'r' { sh.rcs[*slot].take() } else { sh.wks[*slot].take() };
                if let Some(h) = h {
                    self.mail.push((*to, *to_slot, *kind, h));
                }
            }
            Op::Recv => {
                let mine: Vec<_> = self.mail.iter().filter(|m| m.0 == t).cloned().collect();
                self.mail.retain(|m| m.0 != t);
                for (_, slot, kind, h) in mine {
                    if kind == 'r' {
                        sh.rcs[slot] = Some(h);
                    } else {
                        sh.wks[slot] = Some(h);
                    }
                }
            }
            Op::Pin => sh.pinned = true,
            Op::Unpin => {
                sh.pinned = false;
                sh.sns.iter_mut().for_each(|s| *s = None);
                sh.wss.iter_mut().for_each(|s| *s = None);
            }
            Op::Reactivate => {
                sh.sns.iter_mut().for_each(|s| *s = None);
                sh.wss.iter_mut().for_each(|s| *s = None);
            }
            Op::ReleaseAll => {
                sh.pinned = false;
                for v in [&mut sh.rcs, &mut sh.wks, &mut sh.sns, &mut sh.wss] {
                    v.iter_mut().for_each(|s| *s = None);
                }
                sh.its.iter_mut().for_each(|s| *s = None);
            }
            _ => {}
        }
        let mut outs = String::new();
        for (k, slot, word) in &r.outs {
            let h = Self::hnd(*word);
            match k {
                'r' => sh.rcs[*slot] = Some(h),
                'w' => sh.wks[*slot] = Some(h),
                's' => sh.sns[*slot] = Some(h),
                _ => sh.wss[*slot] = Some(h),
            }
            if !outs.is_empty() {
                outs.push(',');
            }
            let _ = write!(outs, "{{\"k\":\"{}\",\"o\":{},\"tag\":{},\"ts\":{}}}", k, h.obj, h.tag, h.ts);
        }
        let extra = r.vals.first().copied().unwrap_or(0);
        let (_, xt, xts) = verif::split_word::<Node>(extra);
        format!(
            "\"op\":\"{}\",\"ok\":{},{},\"outs\":[{}],\"nout\":{},\"xtag\":{},\"xts\":{}",
            op.name(),
            r.ok,
            self.cur_args[t],
            outs,
            r.outs.len(),
            xt,
            xts
        )
    }

    pub fn view(&self, id: usize) -> ObjView {
        let nfree = alloc::nfree(id);
        let npop = NPOP[id].load(SeqCst);
        let ndrop = NDROP[id].load(SeqCst);
        let ps = POP_SEQ[id].load(SeqCst);
        let ds = DROP_SEQ[id].load(SeqCst);
        let fs = alloc::free_seq(id);
        let order_ok = (ndrop == 0 || (npop > 0 && ps < ds)) && (nfree == 0 || (ndrop > 0 && ds < fs));
        let addr = alloc::addr_of(id);
        let raw = unsafe { verif::peek_state::<Node>(addr) };
        let mut v = ObjView { npop, ndrop, nfree, order_ok, ..Default::default() };
        if nfree > 0 {
            v.life = "gone";
            v.uaf = raw != alloc::POISON;
            // the word as it was when the block was freed
            let (s, w, d, k, e) = verif::state_decode(alloc::last_word(id));
            v.s = s;
            v.w = w;
            v.d = d;
            v.k = k;
            v.e = e;
        } else {
            let (s, w, d, k, e) = verif::state_decode(raw);
            v.s = s;
            v.w = w;
            v.d = d;
            v.k = k;
            v.e = e;
            v.life = if ndrop > 0 {
                "dead"
            } else if npop > 0 {
                "popped"
            } else {
                "live"
            };
        }
        v
    }

    fn link_json(word: usize) -> String {
        let h = Self::hnd(word);
        format!("{{\"p\":{},\"tag\":{},\"ts\":{}}}", h.obj, h.tag, h.ts)
    }

    pub fn nobj(&self) -> usize {
        alloc::ntracked()
    }
    /// object currently stored in strong cell `c` / weak cell `c` / strong field `f` of object `id` / its weak field
    /// (0 = null or not readable any more); used by the replayer to resolve abstract locations
    pub fn cell_obj(&self, c: usize) -> usize {
        Self::hnd(verif::atomic_rc_word(&cells()[c])).obj
    }
    pub fn wcell_obj(&self, c: usize) -> usize {
        Self::hnd(verif::atomic_weak_word(&wcells()[c])).obj
    }
    pub fn field_obj(&self, id: usize, f: usize) -> usize {
        let p = PAYLOAD[id].load(SeqCst) as *const Node;
        if p.is_null() || NDROP[id].load(SeqCst) != 0 || alloc::nfree(id) != 0 {
            return 0;
        }
        Self::hnd(verif::atomic_rc_word(unsafe { &(*p).next[f] })).obj
    }
    pub fn wfield_obj(&self, id: usize) -> usize {
        let p = PAYLOAD[id].load(SeqCst) as *const Node;
        if p.is_null() || NDROP[id].load(SeqCst) != 0 || alloc::nfree(id) != 0 {
            return 0;
        }
        Self::hnd(verif::atomic_weak_word(unsafe { &(*p).wnext })).obj
    }
    pub fn site_of(&self, t: usize) -> u32 {
        self.ws[t].at.unwrap_or(0)
    }
    pub fn pending_tasks(&self) -> usize {
        self.tasks.len()
    }

    /// Appends one trace line with the full projected state.
    pub fn record(&mut self, kind: &str, t: usize, what: &str, ret: Option<String>) {
        if !self.log_enabled {
            self.evbuf.clear();
            return;
        }
        let mut head = String::with_capacity(160);
        let _ = write!(
            head,
            "\"sc\":{},\"k\":\"{}\",\"t\":{},\"what\":{:?},\"site\":{}",
            self.sc,
            kind,
            if t == usize::MAX { 0 } else { t + 1 },
            what,
            if t == usize::MAX { 0 } else { self.ws[t].at.unwrap_or(0) },
        );
        if let Some((n, a)) = self.started.take() {
            let _ = write!(head, ",\"opn\":\"{}\",\"args\":{{{}}}", n, a);
        }
        let has_ret = ret.is_some();
        if let Some(r) = ret {
            let _ = write!(head, ",\"ret\":{{{}}}", r);
        }
        let mut s = String::with_capacity(1024);
        let _ = write!(s, ",\"gep\":{}", verif::global_epoch());
        // threads
        s.push_str(",\"thr\":[");
        for (i, w) in self.ws.iter().enumerate() {
            let li = unsafe { verif::peek_local(w.local_id) };
            if i > 0 {
                s.push(',');
            }
            let _ = write!(
                s,
                "{{\"pin\":{},\"lep\":{},\"gc\":{},\"col\":{},\"busy\":{},\"user\":{},\"site\":{},\"op\":\"{}\"}}",
                li.pinned, li.epoch, li.guard_count, li.collecting, w.busy, self.sh[i].pinned, w.at.unwrap_or(0),
                self.sh[i].cur.as_ref().map(|o| o.name()).unwrap_or("")
            );
        }
        s.push_str("],\"obj\":[");
        let n = self.nobj();
        for id in 1..=n {
            let v = self.view(id);
            if id > 1 {
                s.push(',');
            }
            let _ = write!(
                s,
                "{{\"s\":{},\"w\":{},\"d\":{},\"k\":{},\"e\":{},\"life\":\"{}\",\"npop\":{},\"ndrop\":{},\"nfree\":{},\"ord\":{},\"uaf\":{}}}",
                v.s, v.w, v.d, v.k, v.e, v.life, v.npop, v.ndrop, v.nfree, v.order_ok, v.uaf
            );
        }
        s.push_str("],\"cell\":[");
        for (i, c) in cells().iter().enumerate() {
            if i > 0 {
                s.push(',');
            }
            s.push_str(&Self::link_json(verif::atomic_rc_word(c)));
        }
        s.push_str("],\"wcell\":[");
        for (i, c) in wcells().iter().enumerate() {
            if i > 0 {
                s.push(',');
            }
            s.push_str(&Self::link_json(verif::atomic_weak_word(c)));
        }
        // fields of objects whose payload has not been dropped
        s.push_str("],\"fld\":[");
        for id in 1..=n {
            if id > 1 {
                s.push(',');
            }
            let p = PAYLOAD[id].load(SeqCst) as *const Node;
            let alive = !p.is_null() && NDROP[id].load(SeqCst) == 0 && alloc::nfree(id) == 0;
            s.push('[');
            for f in 0..NFIELD {
                if f > 0 {
                    s.push(',');
                }
                if alive {
                    s.push_str(&Self::link_json(verif::atomic_rc_word(unsafe { &(*p).next[f] })));
                } else {
                    s.push_str("{\"p\":0,\"tag\":0,\"ts\":0}");
                }
            }
            s.push(']');
        }
        s.push_str("],\"wfld\":[");
        for id in 1..=n {
            if id > 1 {
                s.push(',');
            }
            let p = PAYLOAD[id].load(SeqCst) as *const Node;
            let alive = !p.is_null() && NDROP[id].load(SeqCst) == 0 && alloc::nfree(id) == 0;
            if alive {
                s.push_str(&Self::link_json(verif::atomic_weak_word(unsafe { &(*p).wnext })));
            } else {
                s.push_str("{\"p\":0,\"tag\":0,\"ts\":0}");
            }
        }
        // ghost ownership: per thread, per object counts
        s.push_str("],\"own\":[");
        for (i, sh) in self.sh.iter().enumerate() {
            if i > 0 {
                s.push(',');
            }
            let cnt = |v: &Vec<Option<Hnd>>| -> String {
                let mut c = vec![0usize; n + 1];
                for h in v.iter().flatten() {
                    if h.obj != 0 && h.obj <= n {
                        c[h.obj] += 1;
                    }
                }
                format!("{:?}", &c[1..])
            };
            // handles in transit to this thread count as its own
            let transit = |kind: char| -> Vec<Option<Hnd>> { self.mail.iter().filter(|m| m.0 == i && m.2 == kind).map(|m| Some(m.3)).collect() };
            let mut rcs_all = sh.rcs.clone();
            rcs_all.extend(transit('r'));
            let mut wks_all = sh.wks.clone();
            wks_all.extend(transit('w'));
            let mut itc = vec![0usize; n + 1];
            for (o, r) in sh.its.iter().flatten() {
                if *o <= n {
                    itc[*o] += r;
                }
            }
            let _ = write!(
                s,
                "{{\"rc\":{},\"wk\":{},\"sn\":{},\"ws\":{},\"it\":{:?}}}",
                cnt(&rcs_all),
                cnt(&wks_all),
                cnt(&sh.sns),
                cnt(&sh.wss),
                &itc[1..]
            );
        }
        s.push_str("],\"tasks\":[");
        for (i, tk) in self.tasks.iter().enumerate() {
            if i > 0 {
                s.push(',');
            }
            let _ = write!(s, "{{\"k\":\"{}\",\"o\":{},\"ep\":{}}}", tk.kind, tk.obj, tk.ep);
        }
        s.push_str("],\"ev\":[");
        for (i, e) in self.evbuf.iter().enumerate() {
            if i > 0 {
                s.push(',');
            }
            let _ = write!(s, "{:?}", e);
        }
        s.push_str("]}");
        let had_ev = !self.evbuf.is_empty();
        self.evbuf.clear();
        if self.dedupe && !had_ev && kind != "fin" && kind != "reset" && s == self.last_body {
            return;
        }
        self.line += 1;
        self.out.push(format!("{{\"i\":{},{}{}", self.line, head, s));
        self.last_body = s;
    }

    fn grace(&mut self) {
        let nt = self.ws.len();
        for _ in 0..4 {
            self.advance();
        }
        for u in 0..nt {
            self.run(u, Op::Collect);
        }
        self.advance();
        for u in 0..nt {
            self.run(u, Op::Collect);
        }
    }
    /// does the shadow state know a counted strong owner of `obj` (handle, in-transit handle, iterator share, link)?
    fn strongly_owned(&self, obj: usize) -> bool {
        if self.sh.iter().any(|s| s.rcs.iter().flatten().any(|h| h.obj == obj) || s.its.iter().flatten().any(|(o, r)| *o == obj && *r > 0)) {
            return true;
        }
        if self.mail.iter().any(|m| m.2 == 'r' && m.3.obj == obj) {
            return true;
        }
        if cells().iter().any(|c| Self::hnd(verif::atomic_rc_word(c)).obj == obj) {
            return true;
        }
        let n = self.nobj();
        (1..=n).any(|id| {
            let p = PAYLOAD[id].load(SeqCst) as *const Node;
            !p.is_null() && NDROP[id].load(SeqCst) == 0 && alloc::nfree(id) == 0 && (0..NFIELD).any(|f| Self::hnd(verif::atomic_rc_word(unsafe { &(*p).next[f] })).obj == obj)
        })
    }
    fn weakly_owned(&self, obj: usize) -> bool {
        if self.sh.iter().any(|s| s.wks.iter().flatten().any(|h| h.obj == obj)) || self.mail.iter().any(|m| m.2 == 'w' && m.3.obj == obj) {
            return true;
        }
        if wcells().iter().any(|c| Self::hnd(verif::atomic_weak_word(c)).obj == obj) {
            return true;
        }
        let n = self.nobj();
        (1..=n).any(|id| {
            let p = PAYLOAD[id].load(SeqCst) as *const Node;
            !p.is_null() && NDROP[id].load(SeqCst) == 0 && alloc::nfree(id) == 0 && Self::hnd(verif::atomic_weak_word(unsafe { &(*p).wnext })).obj == obj
        })
    }

    pub fn quit(&mut self) {
        for w in self.ws.iter_mut() {
            w.quit();
        }
    }

    // -------------------------------------------------------------------------------------
    // finisher: turns latent count errors into observable events

    /// Completes all calls, ends all critical sections, lets `rounds` grace periods pass with
    /// collections, then (if `release`) drops every handle and collects until quiescence.
    pub fn finisher(&mut self, release: bool) -> bool {
        let nt = self.ws.len();
        self.dedupe = true;
        let r = self.finisher_inner(release);
        self.dedupe = false;
        let _ = nt;
        r
    }
    fn finisher_inner(&mut self, release: bool) -> bool {
        let nt = self.ws.len();
        for t in 0..nt {
            self.finish(t);
        }
        if !self.panics.is_empty() {
            // the scenario is abandoned (recorded as `abort`); the workers still let go of what they hold, so
            // that no handle of this scenario is alive in the next one
            let log = self.log_enabled;
            self.log_enabled = false;
            for t in 0..nt {
                if self.idle(t) {
                    self.run(t, Op::ReleaseAll);
                }
            }
            self.log_enabled = log;
            return false;
        }
        for t in 0..nt {
            if self.sh[t].pinned {
                self.run(t, Op::Unpin);
            }
        }
        // survival phase: owners must keep their objects alive through grace periods
        for _ in 0..5 {
            self.advance();
            for t in 0..nt {
                self.run(t, Op::Collect);
            }
        }
        if !release {
            return true;
        }
        // staged release: handles are dropped one at a time; whenever the object just released still has
        // another owner (handle, link, iterator share - or weak owner for a weak handle), grace periods pass
        // with collections before the next release, so that an undercount by one becomes a premature
        // destruct / free that the owner set makes visible
        for t in 0..nt {
            if self.sh[t].pinned {
                self.run(t, Op::Unpin);
            }
            let its: Vec<usize> = self.sh[t].its.iter().enumerate().filter(|(_, s)| s.is_some()).map(|(i, _)| i).collect();
            for it in its {
                self.run(t, Op::IterDrop { it });
            }
            let slots: Vec<(usize, usize)> = self.sh[t].rcs.iter().enumerate().filter_map(|(i, h)| h.map(|h| (i, h.obj))).collect();
            for (slot, obj) in slots {
                self.run(t, Op::Drop { slot });
                if obj != 0 && self.strongly_owned(obj) {
                    self.grace();
                }
            }
            let slots: Vec<(usize, usize)> = self.sh[t].wks.iter().enumerate().filter_map(|(i, h)| h.map(|h| (i, h.obj))).collect();
            for (slot, obj) in slots {
                self.run(t, Op::DropWeak { slot });
                if obj != 0 && self.weakly_owned(obj) {
                    self.grace();
                }
            }
            self.run(t, Op::ReleaseAll);
        }
        self.run(0, Op::ClearCells);
        let mut quiet = false;
        let mut calm = 0;
        for _round in 0..40 {
            self.advance();
            for t in 0..nt {
                self.run(t, Op::Collect);
            }
            // RC-level garbage only: the collector's own queue nodes regenerate one deferral per
            // popped bag under seal-on-defer, so the queue itself never drains completely
            if self.tasks.is_empty() {
                calm += 1;
                if calm >= 4 {
                    quiet = true;
                    break;
                }
            } else {
                calm = 0;
            }
        }
        self.record("fin", usize::MAX, if quiet { "quiescent" } else { "not-quiescent" }, None);
        quiet
    }
}

pub use gen::*;
mod gen {
    use super::*;

    /// Picks an applicable command for thread `t` from `vocab`, most-general-client style.
    pub fn choose_op(ctl: &Ctl, t: usize, rng: &mut Rng, vocab: &[&str], ntags: usize) -> Option<Op> {
        let sh = &ctl.sh[t];
        let free = |v: &Vec<Option<Hnd>>| v.iter().position(|s| s.is_none());
        let held = |v: &Vec<Option<Hnd>>| -> Vec<usize> { v.iter().enumerate().filter(|(_, s)| s.is_some()).map(|(i, _)| i).collect() };
        let nonnull = |v: &Vec<Option<Hnd>>| -> Vec<usize> {
            v.iter().enumerate().filter(|(_, s)| s.map(|h| h.obj != 0).unwrap_or(false)).map(|(i, _)| i).collect()
        };
        let rcs = held(&sh.rcs);
        let rcs_nn = nonnull(&sh.rcs);
        let wks = held(&sh.wks);
        let sns = held(&sh.sns);
        let sns_nn = nonnull(&sh.sns);
        let wss = held(&sh.wss);
        let nobj = ctl.nobj();
        for _try in 0..12 {
            let name = *rng.pick(vocab);
            let tag = rng.below(ntags.max(1));
            // a link location this thread can name: root cell or a field of a node it holds
            let mut pick_loc = |rng: &mut Rng| -> Loc {
                let k = rng.below(3);
                if k == 0 && !rcs_nn.is_empty() {
                    Loc::RcField(*rng.pick(&rcs_nn), rng.below(NFIELD))
                } else if k == 1 && !sns_nn.is_empty() && sh.pinned {
                    Loc::SnField(*rng.pick(&sns_nn), rng.below(NFIELD))
                } else {
                    Loc::Cell(rng.below(NCELL))
                }
            };
            let mut pick_wloc = |rng: &mut Rng| -> WLoc {
                let k = rng.below(3);
                if k == 0 && !rcs_nn.is_empty() {
                    WLoc::RcField(*rng.pick(&rcs_nn))
                } else if k == 1 && !sns_nn.is_empty() && sh.pinned {
                    WLoc::SnField(*rng.pick(&sns_nn))
                } else {
                    WLoc::Cell(rng.below(NWCELL))
                }
            };
            let holder_obj = |l: Loc| -> usize {
                match l {
                    Loc::Cell(_) => 0,
                    Loc::RcField(i, _) => sh.rcs[i].unwrap().obj,
                    Loc::SnField(j, _) => sh.sns[j].unwrap().obj,
                }
            };
            // an Rc argument that keeps the heap acyclic when written into `loc`
            let pick_val = |rng: &mut Rng, l: Loc, ctl: &Ctl| -> Option<RcArg> {
                if rcs.is_empty() || rng.chance(1, 4) {
                    return Some(RcArg::Null(if rng.chance(1, 3) { tag } else { 0 }));
                }
                let i = *rng.pick(&rcs);
                let v = sh.rcs[i].unwrap().obj;
                let h = holder_obj(l);
                if let Loc::RcField(hs, _) = l {
                    if hs == i {
                        return None;
                    }
                }
                if h != 0 && v != 0 && (h == v || ctl.reaches(v, h)) {
                    return None;
                }
                Some(RcArg::Slot(i))
            };
            let op = match name {
                "new" if nobj + 1 < 7 => free(&sh.rcs).map(|dst| {
                    let next = if !rcs.is_empty() && rng.chance(1, 2) { RcArg::Slot(*rng.pick(&rcs)) } else { RcArg::Null(0) };
                    Op::New { dst, next }
                }),
                "new_many" if nobj + 1 < 7 => {
                    let n = 1 + rng.below(3);
                    let fs: Vec<usize> = sh.rcs.iter().enumerate().filter(|(_, s)| s.is_none()).map(|(i, _)| i).take(n).collect();
                    if fs.len() == n {
                        Some(Op::NewMany { n, dsts: fs })
                    } else {
                        None
                    }
                }
                "iter_new" if nobj + 1 < 7 => sh.its.iter().position(|s| s.is_none()).map(|it| Op::IterNew { it, n: rng.below(4) }),
                "iter_next" => {
                    let its: Vec<usize> = sh.its.iter().enumerate().filter(|(_, s)| s.is_some()).map(|(i, _)| i).collect();
                    match (its.is_empty(), free(&sh.rcs)) {
                        (false, Some(dst)) => Some(Op::IterNext { it: *rng.pick(&its), dst }),
                        _ => None,
                    }
                }
                "iter_drop" | "iter_abort" => {
                    let its: Vec<usize> = sh.its.iter().enumerate().filter(|(_, s)| s.is_some()).map(|(i, _)| i).collect();
                    if its.is_empty() || (name == "iter_abort" && !sh.pinned) {
                        None
                    } else if name == "iter_drop" {
                        Some(Op::IterDrop { it: *rng.pick(&its) })
                    } else {
                        Some(Op::IterAbort { it: *rng.pick(&its) })
                    }
                }
                "clone" if !rcs.is_empty() => free(&sh.rcs).map(|dst| Op::Clone { src: *rng.pick(&rcs), dst }),
                "drop" if !rcs.is_empty() => Some(Op::Drop { slot: *rng.pick(&rcs) }),
                "finalize" if !rcs.is_empty() && sh.pinned => Some(Op::Finalize { slot: *rng.pick(&rcs) }),
                "snap" if !rcs.is_empty() && sh.pinned => free(&sh.sns).map(|dst| Op::Snap { src: *rng.pick(&rcs), dst }),
                "counted" if !sns.is_empty() && sh.pinned => free(&sh.rcs).map(|dst| Op::Counted { sn: *rng.pick(&sns), dst }),
                "with_tag" if !rcs.is_empty() => Some(Op::WithTag { slot: *rng.pick(&rcs), tag }),
                "load" if sh.pinned => free(&sh.sns).map(|dst| Op::Load { loc: pick_loc(rng), dst }),
                "store" if sh.pinned => {
                    let loc = pick_loc(rng);
                    pick_val(rng, loc, ctl).map(|val| Op::Store { loc, val })
                }
                "swap" => {
                    let loc = pick_loc(rng);
                    match (pick_val(rng, loc, ctl), free(&sh.rcs)) {
                        (Some(val), Some(dst)) => Some(Op::Swap { loc, val, dst }),
                        // the consumed slot becomes free for the result
                        (Some(RcArg::Slot(i)), None) => Some(Op::Swap { loc, val: RcArg::Slot(i), dst: i }),
                        _ => None,
                    }
                }
                "cas" | "cas_weak" if sh.pinned => {
                    let loc = pick_loc(rng);
                    let exp = if !sns.is_empty() && rng.chance(3, 4) { SnArg::Slot(*rng.pick(&sns)) } else { SnArg::Null(if rng.chance(1, 4) { tag } else { 0 }) };
                    match (pick_val(rng, loc, ctl), free(&sh.sns)) {
                        (Some(val), Some(dst_sn)) => {
                            let dst_rc = match val {
                                RcArg::Slot(i) => Some(i),
                                RcArg::Null(_) => free(&sh.rcs),
                            };
                            dst_rc.map(|dst_rc| Op::Cas { loc, exp, val, weak: name == "cas_weak", dst_rc, dst_sn })
                        }
                        _ => None,
                    }
                }
                "cas_tag" if sh.pinned && !sns.is_empty() => free(&sh.sns).map(|dst_sn| Op::CasTag { loc: pick_loc(rng), exp: SnArg::Slot(*rng.pick(&sns)), tag, dst_sn }),
                "downgrade" if !rcs.is_empty() => free(&sh.wks).map(|dst| Op::Downgrade { src: *rng.pick(&rcs), dst }),
                "wclone" if !wks.is_empty() => free(&sh.wks).map(|dst| Op::WClone { src: *rng.pick(&wks), dst }),
                "dropweak" if !wks.is_empty() => Some(Op::DropWeak { slot: *rng.pick(&wks) }),
                "wsnap" if !wks.is_empty() && sh.pinned => free(&sh.wss).map(|dst| Op::WSnap { src: *rng.pick(&wks), dst }),
                "snapdown" if !sns.is_empty() && sh.pinned => free(&sh.wss).map(|dst| Op::SnapDown { sn: *rng.pick(&sns), dst }),
                "wcounted" if !wss.is_empty() && sh.pinned => free(&sh.wks).map(|dst| Op::WCounted { ws: *rng.pick(&wss), dst }),
                "upgrade" if !wks.is_empty() => free(&sh.rcs).map(|dst| Op::Upgrade { src: *rng.pick(&wks), dst }),
                "wsupgrade" if !wss.is_empty() && sh.pinned => free(&sh.sns).map(|dst| Op::WSUpgrade { ws: *rng.pick(&wss), dst }),
                "wload" if sh.pinned => free(&sh.wss).map(|dst| Op::WLoad { loc: pick_wloc(rng), dst }),
                "wstore" if sh.pinned => {
                    let val = if !wks.is_empty() && rng.chance(3, 4) { RcArg::Slot(*rng.pick(&wks)) } else { RcArg::Null(0) };
                    Some(Op::WStore { loc: pick_wloc(rng), val })
                }
                "wswap" => {
                    let val = if !wks.is_empty() && rng.chance(3, 4) { RcArg::Slot(*rng.pick(&wks)) } else { RcArg::Null(0) };
                    let dst = match val {
                        RcArg::Slot(i) => Some(i),
                        _ => free(&sh.wks),
                    };
                    dst.map(|dst| Op::WSwap { loc: pick_wloc(rng), val, dst })
                }
                "wcas" | "wcas_weak" if sh.pinned => {
                    let exp = if !wss.is_empty() && rng.chance(3, 4) { SnArg::Slot(*rng.pick(&wss)) } else { SnArg::Null(0) };
                    let val = if !wks.is_empty() && rng.chance(3, 4) { RcArg::Slot(*rng.pick(&wks)) } else { RcArg::Null(0) };
                    let dst_wk = match val {
                        RcArg::Slot(i) => Some(i),
                        _ => free(&sh.wks),
                    };
                    match (dst_wk, free(&sh.wss)) {
                        (Some(dst_wk), Some(dst_ws)) => Some(Op::WCas { loc: pick_wloc(rng), exp, val, weak: name == "wcas_weak", dst_wk, dst_ws }),
                        _ => None,
                    }
                }
                "wcas_tag" if sh.pinned && !wss.is_empty() => free(&sh.wss).map(|dst_ws| Op::WCasTag { loc: pick_wloc(rng), exp: SnArg::Slot(*rng.pick(&wss)), tag, dst_ws }),
                "pin" if !sh.pinned => Some(Op::Pin),
                "unpin" if sh.pinned => Some(Op::Unpin),
                "reactivate" if sh.pinned => Some(Op::Reactivate),
                "flush" if sh.pinned => Some(Op::Flush),
                "collect" if !sh.pinned => Some(Op::Collect),
                _ => None,
            };
            if op.is_some() {
                return op;
            }
        }
        None
    }
}

impl Ctl {
    /// Is `to` reachable from `from` through strong links currently in memory or in flight?
    pub fn reaches(&self, from: usize, to: usize) -> bool {
        let n = self.nobj();
        let mut adj: Vec<Vec<usize>> = vec![Vec::new(); n + 1];
        for id in 1..=n {
            let p = PAYLOAD[id].load(SeqCst) as *const Node;
            if p.is_null() || NDROP[id].load(SeqCst) > 0 || alloc::nfree(id) > 0 {
                continue;
            }
            for f in 0..NFIELD {
                let h = Self::hnd(verif::atomic_rc_word(unsafe { &(*p).next[f] }));
                if h.obj != 0 {
                    adj[id].push(h.obj);
                }
            }
        }
        // in-flight stores into fields
        for sh in &self.sh {
            if let Some(op) = &sh.cur {
                let (loc, val) = match op {
                    Op::Store { loc, val } | Op::Swap { loc, val, .. } | Op::Cas { loc, val, .. } => (*loc, *val),
                    _ => continue,
                };
                let h = match loc {
                    Loc::Cell(_) => 0,
                    Loc::RcField(i, _) => sh.rcs[i].map(|h| h.obj).unwrap_or(0),
                    Loc::SnField(j, _) => sh.sns[j].map(|h| h.obj).unwrap_or(0),
                };
                if let (RcArg::Slot(i), true) = (val, h != 0) {
                    if let Some(v) = sh.rcs[i] {
                        if v.obj != 0 && h <= n {
                            adj[h].push(v.obj);
                        }
                    }
                }
            }
        }
        let mut seen = vec![false; n + 1];
        let mut stack = vec![from];
        while let Some(x) = stack.pop() {
            if x == to {
                return true;
            }
            if x > n || seen[x] {
                continue;
            }
            seen[x] = true;
            stack.extend(adj[x].iter().copied());
        }
        false
    }
}
