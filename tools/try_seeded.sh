#!/bin/bash
# try_seeded.sh <patch.diff> <PID> [<PID>...] : applies a seeded change to /repo, runs the quick checks, reverts.
PATCH=$1; shift
cd /repo || exit 2
if ! git apply --check "$PATCH" 2>/dev/null; then echo "PATCH-DOES-NOT-APPLY $PATCH"; exit 3; fi
git apply "$PATCH"
for pid in "$@"; do
  out=$(cd /verif && timeout 1800 tools/check $pid --tier quick 2>&1); rc=$?
  echo "== $pid rc=$rc $(echo "$out" | grep -E '^(VIOLATION|TOOL-ERROR|KNOWN)' | head -3 | tr '\n' ' ')"
  echo "$out" | grep -A1 '^VIOLATION' | grep -v '^VIOLATION' | head -2
done
git -C /repo checkout -- .
