#!/usr/bin/env python3
"""import_seeded.py <ID> <VARIANT> <confirm-log> [<DEST-VARIANT>] : copies a confirmed seeded change from /tmp/mut_<ID>/<VARIANT> into
/verif/seeded/<ID>_<DEST-VARIANT>/ (later batches reuse the source letters A/B and are stored as C/D, ...)"""
import json, os, re, shutil, sys
pid, var, log = sys.argv[1], sys.argv[2], sys.argv[3]
src = "/tmp/mut_%s/%s" % (pid, var)
dvar = sys.argv[4] if len(sys.argv) > 4 else var
dst = "/verif/seeded/%s_%s" % (pid, dvar)
line = next((l.strip() for l in open(log) if l.startswith("RESULT %s/%s " % (pid, var))), None)
if not line or "clean+demo rc=0" not in line or "mutated(existing tests only) rc=0" not in line or re.search(r"mutated\+demo rc=0\b", line):
    print("NOT CONFIRMED", pid, var, line); sys.exit(1)
os.makedirs(dst, exist_ok=True)
for f in os.listdir(src):
    if os.path.isfile(os.path.join(src, f)) and os.path.getsize(os.path.join(src, f)) < 200000:
        shutil.copy(os.path.join(src, f), dst)
notes = open(os.path.join(src, "NOTES.md")).read() if os.path.exists(os.path.join(src, "NOTES.md")) else ""
meta = {"property": pid, "variant": dvar,
        "breaks": "see NOTES.md (written by the sub-agent that produced the change, which saw only the property text)",
        "needs_to_manifest": notes[:1200],
        "confirmed_by": "tools/confirm_seeded.sh %s %s (scratch worktree of /repo HEAD under /tmp, removed afterwards)" % (pid, var),
        "confirmation": line,
        "detected_by": "filled in by tools/seeded_matrix.py"}
json.dump(meta, open(os.path.join(dst, "meta.json"), "w"), indent=1)
print("imported", dst)
