#!/bin/bash
# seed_sweep.sh <seed> [ids...] : runs quick checks with another VERIF_SEED on the unchanged tree; any VIOLATION is a false alarm to investigate
SEED=$1; shift
IDS=${@:-C01 C02 C03 C04 C05 C06 C07 C08 C09 C10 C11 C12 C13 C14 C15 C16 C17 C18 C19 C20}
for id in $IDS; do
  out=$(VERIF_SEED=$SEED VERIF_SKIP_DESIGN=1 python3 /verif/tools/check $id --tier quick 2>&1); rc=$?
  echo "seed=$SEED $id rc=$rc $(echo "$out" | grep -E '^(VIOLATION|TOOL-ERROR|NONCONF|  condition)' | head -3 | tr '\n' ' ')"
done
