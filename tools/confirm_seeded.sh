#!/bin/bash
# confirm_seeded.sh <ID> <VARIANT> : confirms a seeded change in a scratch worktree of /repo (outside /repo and /verif)
# - with the change: crate builds, the repository's own tests pass, the demonstration fails
# - without it: the demonstration passes
ID=$1; V=$2; SRC=${3:-/tmp/mut_$ID/$V}; WT=/tmp/wt_confirm_${ID}_$V
set -u
cd /repo && git worktree remove --force $WT 2>/dev/null; git worktree add -q --detach $WT HEAD || exit 2
cd $WT
res() { echo "RESULT $ID/$V $*"; }
if ! git apply --check $SRC/patch.diff 2>/dev/null; then res "patch does not apply to HEAD"; cd /repo; git worktree remove --force $WT; exit 3; fi
install_demo() {
  if [ -f $SRC/demo.rs ]; then cp $SRC/demo.rs tests/seeded_demo.rs; fi
  for d in $SRC/demo*.diff; do [ -f "$d" ] && git apply $d 2>/dev/null; done
}
# without the change (DEMO_RUSTFLAGS: flags only for the runs that include the demonstration, e.g. a demo that drives
# the crate through its cfg(circ_verif) hooks)
install_demo
RUSTFLAGS="${DEMO_RUSTFLAGS:-}" timeout 900 cargo test --offline --workspace --no-fail-fast > /tmp/confirm_${ID}_$V.clean.log 2>&1; CLEAN=$?
git checkout -q -- . ; git clean -fdq -e target
git apply $SRC/patch.diff
timeout 900 cargo test --offline --workspace --no-fail-fast > /tmp/confirm_${ID}_$V.base.log 2>&1; BASE=$?
install_demo
RUSTFLAGS="${DEMO_RUSTFLAGS:-}" timeout 900 cargo test --offline --workspace --no-fail-fast > /tmp/confirm_${ID}_$V.mut.log 2>&1; MUT=$?
res "clean+demo rc=$CLEAN  mutated(existing tests only) rc=$BASE  mutated+demo rc=$MUT"
cd /repo; git worktree remove --force $WT
