"""Shared machinery of /verif/tools/check: builds the harness against /repo's working tree, runs TLC
on design configs and on recorded traces, applies known_findings.json, writes evidence files."""
import json, os, re, shutil, subprocess, sys, time, hashlib

ROOT = os.path.dirname(os.path.dirname(os.path.abspath(__file__)))
SPECS = os.path.join(ROOT, "specs")
# the three overrides exist only for tools/seeded_matrix.py, which tests the checks against a scratch copy of
# the repository without touching /repo; registered commands never set them
HARNESS = os.environ.get("VERIF_HARNESS_DIR", os.path.join(ROOT, "harness"))
WORK = os.environ.get("VERIF_WORK_DIR", os.path.join(ROOT, "work"))
EVID = os.environ.get("VERIF_EVID_DIR", os.path.join(ROOT, "evidence"))
BIN = os.path.join(HARNESS, "target", "release", "circ-conf")
TLC_WORKERS = int(os.environ.get("VERIF_TLC_WORKERS", "12"))
# per-action coverage statistics double TLC's run time: collected in the thorough tier only (set by tools/check)
COVERAGE = False


class ToolError(Exception):
    pass


def sh(cmd, timeout=None, env=None, cwd=None):
    e = dict(os.environ)
    if env:
        e.update(env)
    p = subprocess.run(cmd, stdout=subprocess.PIPE, stderr=subprocess.STDOUT, text=True, timeout=timeout, env=e, cwd=cwd)
    return p.returncode, p.stdout


def build_harness(profile="release"):
    """(Re)builds the harness; cargo rebuilds the crate whenever /repo's sources changed."""
    os.makedirs(WORK, exist_ok=True)
    lock = os.path.join(HARNESS, "Cargo.lock")
    if not os.path.exists(lock) and os.path.exists("/repo/Cargo.lock"):
        shutil.copy("/repo/Cargo.lock", lock)
    args = ["cargo", "build", "--offline", "--release"] if profile == "release" else ["cargo", "build", "--offline", "--profile", profile]
    rc, out = sh(args, cwd=HARNESS, timeout=1200, env={"CARGO_NET_OFFLINE": "true"})
    if rc != 0:
        raise ToolError("harness build failed:\n" + out[-4000:])
    return BIN if profile == "release" else os.path.join(HARNESS, "target", profile, "circ-conf")


def run_harness(args, timeout=900, binpath=None):
    rc, out = sh([binpath or BIN] + args, timeout=timeout)
    if rc != 0:
        raise ToolError("harness %s failed (rc=%d):\n%s" % (" ".join(args), rc, out[-3000:]))
    stats = {}
    for line in out.splitlines():
        line = line.strip()
        if line.startswith("{"):
            try:
                stats = json.loads(line)
            except Exception:
                pass
    return stats, out


COV_RE = re.compile(r"^<(\w+) line (\d+), col \d+ to line \d+, col \d+ of module (\w+)>: (\d+):(\d+)")


def run_tlc_design(cfg, spec, timeout_s, workers=None, simulate=None, extra=None):
    """Runs TLC on a design config. Returns dict(states, distinct, depth, coverage, violated, out)."""
    name = os.path.splitext(os.path.basename(cfg))[0]
    if os.environ.get("VERIF_SKIP_DESIGN"):
        # tools/seeded_matrix.py only: the design configs do not depend on the repository's code
        return {"config": name, "rc": 0, "wall_s": 0, "generated": 0, "distinct": 0, "depth": 0, "coverage": {}, "violated": None, "timeout": False, "out_tail": "skipped"}
    meta = os.path.join(WORK, "tlc", name + "_" + str(os.getpid()))
    shutil.rmtree(meta, ignore_errors=True)
    os.makedirs(meta, exist_ok=True)
    cmd = ["timeout", str(timeout_s), "tlc", "-workers", str(workers or TLC_WORKERS), "-metadir", meta, "-cleanup",
           "-noGenerateSpecTE"] + (["-coverage", "1"] if COVERAGE else []) + ["-config", cfg]
    if simulate:
        cmd += ["-simulate", simulate]
    if extra:
        cmd += extra
    cmd.append(spec)
    t0 = time.time()
    rc, out = sh(cmd, cwd=SPECS, env={"JAVA_TOOL_OPTIONS": "-Xss64m"})
    shutil.rmtree(meta, ignore_errors=True)
    res = {"config": name, "rc": rc, "wall_s": round(time.time() - t0, 1), "generated": 0, "distinct": 0, "depth": 0,
           "coverage": {}, "violated": None, "timeout": rc == 124}
    for line in out.splitlines():
        m = re.match(r"^(\d+) states generated, (\d+) distinct states found", line)
        if m:
            res["generated"], res["distinct"] = int(m.group(1)), int(m.group(2))
        m = re.match(r"^The depth of the complete state graph search is (\d+)", line)
        if m:
            res["depth"] = int(m.group(1))
        m = re.match(r"^Progress\(\d+\) at .*: ([\d,]+) states generated.*?([\d,]+) distinct states found", line)
        if m and rc == 124:
            res["generated"], res["distinct"] = int(m.group(1).replace(",", "")), int(m.group(2).replace(",", ""))
        m = re.match(r"^The number of states generated: (\d+)", line)
        if m:
            res["generated"] = int(m.group(1))
        m = COV_RE.match(line)
        if m:
            res["coverage"][m.group(1)] = res["coverage"].get(m.group(1), 0) + int(m.group(5))
        m = re.match(r"^Error: Invariant (\w+) is violated", line)
        if m:
            res["violated"] = m.group(1)
        m = re.match(r"^Error: Action property (\w+) is violated", line)
        if m:
            res["violated"] = m.group(1)
        if re.match(r"^Error: Action property line \d+", line):
            res["violated"] = "action-property(" + line.split(" of module ")[-1].split(" ")[0] + ")"
        if "Temporal properties were violated" in line:
            res["violated"] = "temporal"
    if rc not in (0, 124) and res["violated"] is None and "Error:" in out:
        res["error"] = out[-3000:]
    res["out_tail"] = out[-1500:]
    return res


VIOL_RE = re.compile(r'<<"VIOL", "(\w+)", (\d+), (\d+)>>')


def validate_trace(trace, cfg="TraceCirc.cfg", spec="TraceCirc.tla", timeout_s=900):
    """TLC on a recorded trace. Returns dict(lines, accepted, viols: {(name, sc): first line})."""
    meta = os.path.join(WORK, "tlc", "tr_%d_%s" % (os.getpid(), hashlib.md5(trace.encode()).hexdigest()[:8]))
    shutil.rmtree(meta, ignore_errors=True)
    os.makedirs(meta, exist_ok=True)
    cmd = ["timeout", str(timeout_s), "tlc", "-workers", "1", "-metadir", meta, "-cleanup", "-noGenerateSpecTE", "-config", cfg, spec]
    rc, out = sh(cmd, cwd=SPECS, env={"TRACE": trace, "JAVA_TOOL_OPTIONS": "-Xss1g -Xmx6g -Dtlc2.tool.queue.IStateQueue=StateDeque"})
    shutil.rmtree(meta, ignore_errors=True)
    viols = {}
    for m in VIOL_RE.finditer(out):
        key = (m.group(1), int(m.group(2)))
        viols.setdefault(key, int(m.group(3)))
    acc = re.search(r'<<"ACCEPTED", (\d+)>>', out)
    rej = re.search(r'<<"REJECTED", (\d+), (\d+)>>', out)
    if not acc and not rej:
        raise ToolError("trace validation did not complete (rc=%d):\n%s" % (rc, out[-3000:]))
    states = 0
    m = re.search(r"(\d+) states generated, (\d+) distinct states found", out)
    if m:
        states = int(m.group(2))
    return {"accepted": bool(acc), "lines": int(acc.group(1)) if acc else int(rej.group(2)), "matched": int(acc.group(1)) if acc else int(rej.group(1)),
            "viols": viols, "states": states}


STRICT_RE = re.compile(r'<<\s*"STRICT-(ACCEPTED|REJECTED)",\s*(\d+)(?:,\s*(\d+),\s*(\d+))?')


def sample_scenarios(trace, out, maxlines, seed):
    """Whole scenarios of `trace`, chosen at random (seeded), at most `maxlines` lines; all of them if maxlines is None."""
    import random
    sc, order = {}, []
    skip = set()
    for line in open(trace):
        i = line.find('"sc":')
        k = int(line[i + 5:line.find(",", i)])
        if '"k":"reset"' in line and '"what":"nat:' in line:
            skip.add(k)        # the code advances the epoch itself in these scenarios: outside the step relation's vocabulary
        if k in skip:
            continue
        if k not in sc:
            sc[k] = []
            order.append(k)
        sc[k].append(line)
    if maxlines is None:
        pick = order
    else:
        rnd = random.Random(seed)
        rnd.shuffle(order)
        n, pick = 0, []
        for k in order:
            if n + len(sc[k]) > maxlines:
                continue
            pick.append(k)
            n += len(sc[k])
        pick.sort()
    with open(out, "w") as f:
        for k in pick:
            f.writelines(sc[k])
    return len(pick), sum(len(sc[k]) for k in pick)


def ebr_strict_validate(trace, threads, timeout_s=3000):
    """Step-relation validation of an EBR trace (TraceEbrStrict.tla). Returns dict(accepted, lines, matched, scenario, states, strict_lines)."""
    meta = os.path.join(WORK, "tlc", "est_%d_%s" % (os.getpid(), hashlib.md5(trace.encode()).hexdigest()[:8]))
    shutil.rmtree(meta, ignore_errors=True)
    os.makedirs(meta, exist_ok=True)
    cmd = ["timeout", str(timeout_s), "tlc", "-workers", "1", "-metadir", meta, "-cleanup", "-noGenerateSpecTE",
           "-config", "TraceEbrStrict_t%d.cfg" % threads, "TraceEbrStrict.tla"]
    rc, out = sh(cmd, cwd=SPECS, env={"TRACE": trace, "JAVA_TOOL_OPTIONS": "-Xss1g -Xmx6g -Dtlc2.tool.queue.IStateQueue=StateDeque"})
    shutil.rmtree(meta, ignore_errors=True)
    m = STRICT_RE.search(out)
    if not m:
        raise ToolError("strict EBR trace validation did not complete (rc=%d):\n%s" % (rc, out[-3000:]))
    # how many lines were held to the step relation (not trusted / loose / outside the vocabulary): same rule as the spec
    sup = {"pin", "unpin", "react", "react_after", "react_after_panic", "flush", "defer", "advance", "hdrop"}
    strict_lines, loose, ext = 0, False, set()
    for line in open(trace):
        r = json.loads(line)
        if r["k"] == "reset":
            loose, ext = False, set()
            continue
        trusted = r["k"] in ("fin", "abort") or r["mask"] != 2
        loose = loose or trusted
        if loose:
            continue
        if r["k"] == "start":
            if r["opn"] in sup:
                ext.discard(r["t"])
                strict_lines += 1
            else:
                ext.add(r["t"])
        elif r["k"] == "step" and r["t"] not in ext:
            strict_lines += 1
    ms = re.search(r"(\d+) states generated, (\d+) distinct states found", out)
    states = int(ms.group(2)) if ms else 0
    if m.group(1) == "ACCEPTED":
        return {"accepted": True, "lines": int(m.group(2)), "matched": int(m.group(2)), "scenario": None, "states": states, "strict_lines": strict_lines}
    return {"accepted": False, "matched": int(m.group(2)), "lines": int(m.group(3)), "scenario": int(m.group(4)), "states": states, "strict_lines": strict_lines}


def queue_strict_validate(trace, threads, timeout_s=3000, module="TraceQStrict", part_bytes=60_000_000):
    """Step-relation validation of a queue trace (TraceQStrict.tla over MSQueue.tla) or of a list trace
    (module="TraceLStrict", over RegList.tla). A big trace (the thorough tier: about a million lines) is cut at
    scenario boundaries (every scenario starts with a `reset` line, which resets the whole model state) and the parts
    are validated side by side; the first rejected line is reported with its position in the whole trace."""
    parts = split_trace(trace, part_bytes)
    if len(parts) == 1:
        return _queue_strict_one(trace, threads, timeout_s, module)
    from concurrent.futures import ThreadPoolExecutor
    offs, o = [], 0
    for pf in parts:
        offs.append(o)
        with open(pf) as fh:
            o += sum(1 for _ in fh)
    try:
        with ThreadPoolExecutor(max_workers=5) as ex:
            rs = list(ex.map(lambda pf: _queue_strict_one(pf, threads, timeout_s, module), parts))
    finally:
        for pf in parts:
            if pf != trace and os.path.exists(pf):
                os.remove(pf)
    states = sum(r["states"] for r in rs)
    for r, off in zip(rs, offs):
        if not r["accepted"]:
            return {"accepted": False, "matched": off + r["matched"], "lines": o, "scenario": r["scenario"], "states": states}
    return {"accepted": True, "lines": o, "matched": o, "scenario": None, "states": states}


def _queue_strict_one(trace, threads, timeout_s, module):
    meta = os.path.join(WORK, "tlc", "qst_%d_%s" % (os.getpid(), hashlib.md5(trace.encode()).hexdigest()[:8]))
    shutil.rmtree(meta, ignore_errors=True)
    os.makedirs(meta, exist_ok=True)
    cmd = ["timeout", str(timeout_s), "tlc", "-workers", "1", "-metadir", meta, "-cleanup", "-noGenerateSpecTE",
           "-config", "%s_t%d.cfg" % (module, threads), module + ".tla"]
    rc, out = sh(cmd, cwd=SPECS, env={"TRACE": trace, "JAVA_TOOL_OPTIONS": "-Xss1g -Xmx6g -Dtlc2.tool.queue.IStateQueue=StateDeque"})
    shutil.rmtree(meta, ignore_errors=True)
    m = STRICT_RE.search(out)
    if not m:
        raise ToolError("strict queue trace validation did not complete (rc=%d):\n%s" % (rc, out[-3000:]))
    ms = re.search(r"(\d+) states generated, (\d+) distinct states found", out)
    states = int(ms.group(2)) if ms else 0
    if m.group(1) == "ACCEPTED":
        return {"accepted": True, "lines": int(m.group(2)), "matched": int(m.group(2)), "scenario": None, "states": states}
    return {"accepted": False, "matched": int(m.group(2)), "lines": int(m.group(3)), "scenario": int(m.group(4)), "states": states}


def strict_validate(trace, threads, timeout_s=3000):
    """Step-relation validation (TraceCircStrict.tla): every line must be explained by an action of Circ.tla.
    Returns dict(accepted, lines, matched, scenario, states)."""
    meta = os.path.join(WORK, "tlc", "st_%d_%s" % (os.getpid(), hashlib.md5(trace.encode()).hexdigest()[:8]))
    shutil.rmtree(meta, ignore_errors=True)
    os.makedirs(meta, exist_ok=True)
    cmd = ["timeout", str(timeout_s), "tlc", "-workers", "1", "-metadir", meta, "-cleanup", "-noGenerateSpecTE",
           "-config", "TraceCircStrict_t%d.cfg" % threads, "TraceCircStrict.tla"]
    rc, out = sh(cmd, cwd=SPECS, env={"TRACE": trace, "JAVA_TOOL_OPTIONS": "-Xss1g -Xmx6g -Dtlc2.tool.queue.IStateQueue=StateDeque"})
    shutil.rmtree(meta, ignore_errors=True)
    m = STRICT_RE.search(out)
    if not m:
        raise ToolError("strict trace validation did not complete (rc=%d):\n%s" % (rc, out[-3000:]))
    states = 0
    ms = re.search(r"(\d+) states generated, (\d+) distinct states found", out)
    if ms:
        states = int(ms.group(2))
    if m.group(1) == "ACCEPTED":
        return {"accepted": True, "lines": int(m.group(2)), "matched": int(m.group(2)), "scenario": None, "states": states}
    return {"accepted": False, "matched": int(m.group(2)), "lines": int(m.group(3)), "scenario": int(m.group(4)), "states": states}


def split_trace(trace, max_bytes=900_000_000):
    """TLC's JSON reader fails on files beyond 2 GB: a big trace is cut at scenario boundaries (`reset` lines) into
    parts of at most max_bytes. Returns the list of part files (the trace itself if it is small enough)."""
    if os.path.getsize(trace) <= max_bytes:
        return [trace]
    parts, out, size, k = [], None, 0, 0
    with open(trace) as f:
        for line in f:
            if out is None or (size > max_bytes and '"k":"reset"' in line[:80]):
                if out:
                    out.close()
                k += 1
                pf = trace.replace(".ndjson", ".part%d.ndjson" % k)
                parts.append(pf)
                out = open(pf, "w")
                size = 0
            out.write(line)
            size += len(line)
    if out:
        out.close()
    return parts


def load_known():
    p = os.path.join(ROOT, "known_findings.json")
    if not os.path.exists(p):
        return []
    return json.load(open(p)).get("findings", [])


def read_lines(trace):
    return [json.loads(x) for x in open(trace) if x.strip()]


def write_evidence(pid, tier, seed, level, coverage, wall_s, violations, assumptions):
    os.makedirs(EVID, exist_ok=True)
    ev = {"property_id": pid, "tier": tier, "seed": seed, "level": level, "coverage": coverage, "assumptions": assumptions,
          "wall_s": round(wall_s, 1), "violations": violations}
    tmp = os.path.join(EVID, pid + ".json.tmp")
    json.dump(ev, open(tmp, "w"), indent=1)
    os.replace(tmp, os.path.join(EVID, pid + ".json"))
