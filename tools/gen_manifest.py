#!/usr/bin/env python3
"""Regenerates /verif/MANIFEST.json from the table below (single source for commands and level texts)."""
import json
props = [json.loads(l) for l in open('/verif/properties.jsonl')]
T = {
 "rc": ("TLC explores the explicit TLA+ specification specs/Circ.tla (one action per shared-word access of the count and pointer layers) exhaustively within small constants; the same invariants plus per-call history conditions are evaluated by TLC (TraceCirc.tla) on every state of recorded executions of the real crate run under a deterministic cooperative scheduler: directed witness schedules derived from TLC counterexamples of mutated specs, and seeded random most-general-client schedules with stall mode and a finisher that turns latent count errors into observable events.",
        "TLA+/TLC model checking + trace validation of real executions against the spec", "DESIGN.md 4.1, 5, 6"),
 "vec": ("The packed-word helpers are specified on bit vectors in specs/Bits.tla (PtrOrd.tla for C19); TLC checks the theorems exhaustively on a small layout/universe, and TLC (TraceBits.tla / TracePtrOrd.tla) judges every row that the REAL functions and the public API produced on a boundary lattice plus seeded random inputs at the real widths.",
         "TLA+/TLC exhaustive check of a parametric spec + row-by-row validation of implementation vectors", "DESIGN.md 4.4, 6"),
 "ebr": ("TLC explores specs/Ebr.tla (one action per shared access of pin/unpin/try_advance/push_bag/collect/finalize, scripted participant programs per race) exhaustively, incl. liveness of EventuallyRun under fairness for C15; the same invariants are evaluated by TLC (TraceEbr.tla) on every state of executions of the real EBR (private collectors) under the cooperative scheduler with preemption at every EBR site: directed schedules per race + seeded random programs with nested guards, reactivation, closures of every size class and thread exit.",
         "TLA+/TLC model checking + trace validation of real executions against the spec", "DESIGN.md 4.2, 5, 6"),
}
FAM = {"C01":"rc","C02":"rc","C03":"rc","C04":"rc","C05":"rc","C08":"rc","C09":"rc","C10":"rc","C11":"vec","C12":"vec","C19":"vec","C13":"ebr","C14":"ebr","C15":"ebr","C16":"ebr"}
NA = {}
EXTRA = json.load(open('/verif/tools/manifest_extra.json')) if __import__('os').path.exists('/verif/tools/manifest_extra.json') else {}
FAM.update(EXTRA.get("fam", {})); T.update({k: tuple(v) for k, v in EXTRA.get("texts", {}).items()}); NA.update(EXTRA.get("na", {}))
checks = []
for p in props:
    if p['id'] in FAM:
        text, tech, ref = T[FAM[p['id']]]
        checks.append({"property_id": p['id'],
          "quick_cmd": "cd /verif && tools/check %s --tier quick" % p['id'],
          "thorough_cmd": "cd /verif && tools/check %s --tier thorough" % p['id'],
          "evidence_file": "/verif/evidence/%s.json" % p['id'],
          "replay_cmd_template": "cd /verif && tools/check %s --replay {path}" % p['id'],
          "engine": "circ-tla",
          "level_claimed": {"category": "model_checking", "text": text, "design_ref": ref},
          "level_note": "Sequentially consistent steps (no weak-memory reorderings); exhaustive only within the constants of the TLC configs; harness, cfg(circ_verif) hooks and recorder trusted; release build of the crate.",
          "technique": tech})
m = {"version": 1,
 "setup_cmd": "cd /verif/harness && (test -f Cargo.lock || cp /repo/Cargo.lock .) && CARGO_NET_OFFLINE=true cargo build --release --offline && CARGO_NET_OFFLINE=true cargo build --offline --profile dbg && cd /verif/specs && for s in Circ TraceCirc Ebr MCEbr TraceEbr Bits MCBits TraceBits PtrOrd TracePtrOrd MSQueue RegList TraceQL TraceRows; do tla-sany $s.tla >/dev/null || exit 1; done",
 "hooks": {"guard": "circ_verif", "enable": "rustflags --cfg circ_verif in /verif/harness/.cargo/config.toml; the harness depends on /repo by path, so every check rebuilds from /repo's working tree",
           "baseline_off_cmd": "cd /repo && cargo test --workspace --no-fail-fast --offline",
           "source_commits": EXTRA.get("hook_commits", []), "add_only": True},
 "engines": [{"name": "circ-tla", "path": "/verif/tools/check", "serves_properties": sorted(FAM), "kind_free_text": "TLC on specs/*.tla (design configs) + Rust conformance harness under a cooperative scheduler + TLC trace/row validation"}],
 "checks": checks,
 "not_applicable": [{"property_id": p['id'], "reason": NA.get(p['id'], "check under construction in this snapshot (specification and harness for this part not yet registered)")} for p in props if p['id'] not in FAM],
 "notes": "See DESIGN.md. known_findings.json lists repaired defects (fix: commits in /repo) and open findings."}
json.dump(m, open('/verif/MANIFEST.json', 'w'), indent=1)
print(len(checks), "checks")
