#!/usr/bin/env python3
"""seeded_matrix.py [ID_VARIANT ...] : runs the quick check of each seeded change's property against a scratch copy
of /repo with the change applied (under /tmp, removed afterwards) and records the outcome in seeded/<id>/meta.json.
/repo itself is not touched."""
import json, os, re, shutil, subprocess, sys, time
ROOT = "/verif"
MX = "/tmp/mx_%d" % os.getpid()
EXTRA = {  # further properties whose checks are also expected to notice (mechanism shared)
    "C13_B": ["C14"], "C14_B": ["C13"], "C16_B": ["C13"], "C05_B": ["C02"], "C01_B": ["C02", "C05"],
    "C13_D": ["C17"], "C02_D": ["C14"], "C14_D": ["C02"],
}
def sh(cmd, **kw):
    return subprocess.run(cmd, shell=True, stdout=subprocess.PIPE, stderr=subprocess.STDOUT, text=True, **kw)
def main():
    names = sys.argv[1:] or sorted(os.listdir(os.path.join(ROOT, "seeded")))
    os.makedirs(MX)
    sh("git -C /repo worktree add -q --detach %s/repo HEAD" % MX)
    sh("cp -r %s/harness %s/harness && rm -rf %s/harness/target" % (ROOT, MX, MX))
    # reuse the build cache of the real harness to save time
    sh("cp -r %s/harness/target %s/harness/target" % (ROOT, MX))
    ct = open("%s/harness/Cargo.toml" % MX).read().replace('path = "/repo"', 'path = "%s/repo"' % MX)
    open("%s/harness/Cargo.toml" % MX, "w").write(ct)
    env = dict(os.environ, VERIF_HARNESS_DIR=MX + "/harness", VERIF_WORK_DIR=MX + "/work", VERIF_EVID_DIR=MX + "/evidence", VERIF_SKIP_DESIGN="1")
    results = {}
    for name in names:
        d = os.path.join(ROOT, "seeded", name)
        meta = json.load(open(os.path.join(d, "meta.json")))
        pid = meta["property"]
        r = sh("git -C %s/repo apply %s/patch.diff" % (MX, d))
        if r.returncode != 0:
            print(name, "patch does not apply:", r.stdout[:200]); continue
        out = {}
        for p in [pid] + EXTRA.get(name, []):
            t0 = time.time()
            r = subprocess.run(["python3", ROOT + "/tools/check", p, "--tier", "quick"], env=env, stdout=subprocess.PIPE, stderr=subprocess.STDOUT, text=True)
            viol = [l for l in r.stdout.splitlines() if l.startswith("VIOLATION") or l.startswith("  condition") or l.startswith("TOOL-ERROR")]
            nonconf = [l for l in r.stdout.splitlines() if l.startswith("NONCONFORMANCE")]
            out[p] = {"exit": r.returncode, "lines": viol[:4], "wall_s": round(time.time() - t0),
                      "nonconformance": [l[:260] for l in nonconf[:3]]}
            print(name, p, "exit", r.returncode, (viol[1].strip() if len(viol) > 1 else (viol[0] if viol else ""))[:160], flush=True)
        sh("git -C %s/repo checkout -- ." % MX)
        meta["detected_by"] = out
        meta["detected"] = any(v["exit"] == 1 for v in out.values())
        json.dump(meta, open(os.path.join(d, "meta.json"), "w"), indent=1)
        results[name] = meta["detected"]
    sh("git -C /repo worktree remove --force %s/repo" % MX)
    shutil.rmtree(MX, ignore_errors=True)
    print("SUMMARY", json.dumps(results))
main()
