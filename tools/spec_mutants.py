#!/usr/bin/env python3
"""spec_mutants.py : runs TLC on every (specification mutant, design config) pair below and records whether the
property invariants are violated in the MODEL (specs/KILLMATRIX.md). This shows that the invariants are not vacuous
on the configurations used by the checks, and names the directed harness scenario that carries each counterexample
to the real code. Not part of any property's verdict."""
import os, re, subprocess, sys, tempfile, time, json
SPECS = "/verif/specs"
# (spec module, base cfg, mutation of the cfg as regex sub list, what it models, harness scenario)
M = [
 ("Circ.tla", "MC_C01_weak.cfg", [(r'Fix = \{[^}]*\}', 'Fix = {"pin", "mark", "stamp", "wmany", "newmany0"}'), (r'MaxEp = \d+', 'MaxEp = 7')], "increment_strong as two fetch_adds (pre-fix g)", "dir:inc_from_zero"),
 ("Circ.tla", "MC_C01_weak.cfg", [(r'Mut = \{\}', 'Mut = {"NoToken"}'), (r'Fix = \{[^}]*\}', 'Fix = {"pin", "mark", "stamp", "wmany", "newmany0"}')], "no token on increment from zero", "dir:token_protocol"),
 ("Circ.tla", "MC_C02_chain.cfg", [(r'Fix = \{[^}]*\}', 'Fix = {"inc", "mark", "stamp", "wmany", "newmany0"}'), (r'MaxOps = \d+', 'MaxOps = 4')], "decrement reads the epoch unpinned (pre-fix c)", "dir:stale_stamp"),
 ("Circ.tla", "MC_C02_chain.cfg", [(r'CasAge = 3', 'CasAge = 2'), (r'MaxOps = \d+', 'MaxOps = 4')], "cascade threshold 2 instead of 3", "decide rows / dir:stale_stamp"),
 ("Circ.tla", "MC_C02_chainw.cfg", [(r'Fix = \{[^}]*\}', 'Fix = {"pin", "inc", "mark", "wmany", "newmany0"}')], "WeakSnapshot::upgrade leaves no stamp (pre-fix f)", "dir:wsupgrade_vs_cascade"),
 ("Circ.tla", "MC_C02_chainw.cfg", [(r'Mut = \{\}', 'Mut = {"NoUpgradeToken"}')], "is_not_destructed adds no token at zero", "dir:upgrade_token_window"),
 ("Circ.tla", "MC_C05_chainw.cfg", [(r'Fix = \{[^}]*\}', 'Fix = {"pin", "inc", "stamp", "wmany", "newmany0"}')], "cascaded child not marked DESTRUCTED (pre-fix b)", "dir:cascade_then_upgrade"),
 ("Circ.tla", "MC_C02_chain.cfg", [(r'Mut = \{\}', 'Mut = {"NoDecStamp"}'), (r'MaxOps = \d+', 'MaxOps = 4')], "decrement does not stamp", "dir:stale_stamp"),
 ("Circ.tla", "MC_C02_chain.cfg", [(r'Mut = \{\}', 'Mut = {"StampNotMax"}'), (r'MaxOps = \d+', 'MaxOps = 4')], "child stamp not merged with parent/link", "decide rows"),
 ("Circ.tla", "MC_C03_weak.cfg", [(r'Mut = \{\}', 'Mut = {"DisposeFreesWeaked"}')], "dispose frees although WEAKED", "dir:weak_from_zero"),
 ("Circ.tla", "MC_C03_weak.cfg", [(r'Mut = \{\}', 'Mut = {"NoWeakToken"}')], "no token on weak increment from zero", "dir:weak_from_zero"),
 ("Circ.tla", "MC_C03_weak.cfg", [(r'Mut = \{\}', 'Mut = {"TDeallocNoRecheck"}')], "try_dealloc does not re-check", "dir:weak_from_zero"),
 ("Circ.tla", "MC_C04_chain3.cfg", [(r'Mut = \{\}', 'Mut = {"NoDeferAtZero"}')], "count reaches zero without scheduling try_destruct (leak)", "finisher ObsNoLeak"),
 ("Circ.tla", "MC_C01_chain.cfg", [(r'Mut = \{\}', 'Mut = {"TDNoRecheck"}'), (r'MaxOps = \d+', 'MaxOps = 3'), (r'MaxEp = \d+', 'MaxEp = 7')], "try_destruct does not re-check the count", "dir:token_protocol"),
 ("MCEbr.tla", "MC_C13_nested.cfg", [(r'Fix = \{[^}]*\}', 'Fix = {}'), (r'ProgNestedQ', 'ProgNested'), (r'TaskNestedQ', 'TaskNested')], "re-pin under a live nested guard (pre-fix w)", "dir:nested_repin"),
 ("MCEbr.tla", "MC_C14_pinadv.cfg", [(r'Mut = \{\}', 'Mut = {"PinNoRevalidate"}')], "pin without re-validation", "dir:pin_vs_advance"),
 ("MCEbr.tla", "MC_C14_pinadv.cfg", [(r'Mut = \{\}', 'Mut = {"PinLagOne"}')], "pin validation accepts a lag of one", "dir:pin_vs_two_advances"),
 ("MCEbr.tla", "MC_C14_pinadv.cfg", [(r'Mut = \{\}', 'Mut = {"AdvanceSkipsSelf"}')], "try_advance skips the caller", "dir:self_advance"),
 ("MCEbr.tla", "MC_C14_pinadv.cfg", [(r'Mut = \{\}', 'Mut = {"AdvanceIgnoresPinned"}')], "try_advance ignores lagging participants", "random ebr"),
 ("MCEbr.tla", "MC_C14_pinadv.cfg", [(r'Mut = \{\}', 'Mut = {"AdvanceBy2"}')], "epoch moves by two", "ObsMono"),
 ("MCEbr.tla", "MC_C13_nested.cfg", [(r'Mut = \{\}', 'Mut = {"CollectUnexpired"}')], "collect pops unexpired bags", "random ebr"),
 ("MCEbr.tla", "MC_C15_exit.cfg", [(r'Mut = \{\}', 'Mut = {"FinalizeDropsBag"}')], "finalize drops the local bag", "dir:exit_with_garbage"),
 ("MCEbr.tla", "MC_C15_exit.cfg", [(r'Mut = \{\}', 'Mut = {"NeverCollect"}')], "collect never pops a bag (liveness)", "ObsAllRan"),
 ("MCEbr.tla", "MC_C16_guards.cfg", [(r'Mut = \{\}', 'Mut = {"UnpinInnerClears"}')], "dropping an inner guard clears the pinned bit", "dir:guard_program"),
 ("MCEbr.tla", "MC_C13_defcol.cfg", [(r'Mut = \{\}', 'Mut = {"CollectUnexpired"}')], "collect pops unexpired bags (refinement Ebr => EbrAbs)", "dir:two_collectors / random ebr"),
 ("MCEbr.tla", "MC_C13_defcol.cfg", [(r'Mut = \{\}', 'Mut = {"SealEarly"}')], "bag sealed with the announced instead of the global epoch (refinement)", "random ebr"),
 ("MCCircAbs.tla", "MC_C02_refines.cfg", [(r'Mut = \{\}', 'Mut = {"RunUnripe"}')], "Circ's EBR part runs a deferred function early (refinement Circ => EbrAbs)", "(contract)"),
 ("MCCircAbs.tla", "MC_C02_refines.cfg", [(r'Mut = \{\}', 'Mut = {"AdvancePastPinned"}')], "Circ's EBR part advances past a lagging announcement (refinement)", "(contract)"),
 ("MSQueue.tla", "MC_C17_queue.cfg", [(r'Mut = \{\}', 'Mut = {"NoTailFixup"}')], "pop without tail fix-up", "ObsTail"),
 ("MSQueue.tla", "MC_C17_queue.cfg", [(r'Mut = \{\}', 'Mut = {"PopIfRetryUnconditional"}'), (r'PopsPer = 1', 'PopsPer = 2')], "try_pop_if retries without the predicate", "ObsPopIf"),
 ("MSQueue.tla", "MC_C17_queue.cfg", [(r'Mut = \{\}', 'Mut = {"PushTailStore"}')], "push publishes tail with a store", "ObsTail"),
 ("RegList.tla", "MC_C18_list.cfg", [(r'Mut = \{\}', 'Mut = {"UnlinkBlindStore"}')], "unlink by blind store", "ObsTraverse/ObsFinOnce"),
 ("RegList.tla", "MC_C18_list.cfg", [(r'Mut = \{\}', 'Mut = {"DeleteNotAtomic"}')], "delete as load;store", "ObsFinOnce"),
 ("RegList.tla", "MC_C18_list.cfg", [(r'Mut = \{\}', 'Mut = {"SkipRestart"}')], "no restart on a marked predecessor", "(harmless for completeness: expected NOT killed)"),
]
def main():
    rows = []
    for spec, cfg, subs, what, scen in M:
        text = open(os.path.join(SPECS, cfg)).read()
        for pat, rep in subs:
            text, n = re.subn(pat, rep, text)
            assert n >= 1, (cfg, pat)
        tmp = os.path.join(SPECS, "_mut_tmp.cfg")
        open(tmp, "w").write(text)
        t0 = time.time()
        meta = tempfile.mkdtemp(prefix="tlcmut")
        p = subprocess.run(["timeout", "2400", "tlc", "-workers", "14", "-metadir", meta, "-cleanup", "-noGenerateSpecTE", "-config", tmp, spec], cwd=SPECS, stdout=subprocess.PIPE, stderr=subprocess.STDOUT, text=True)
        subprocess.run(["rm", "-rf", meta])
        m = re.search(r"Error: (?:Invariant|Action property) (\w+) is violated", p.stdout) or re.search(r"Error: Temporal property (\w+) was violated", p.stdout)
        if not m and re.search(r"Error: Action property line \d+.* of module (\w+) is violated", p.stdout):
            m = re.search(r"Error: Action property line \d+.* of module (\w+)( )is violated", p.stdout)
        temporal = "Temporal properties were violated" in p.stdout
        states = re.search(r"(\d+) states generated, (\d+) distinct", p.stdout)
        depth = len(re.findall(r"^State \d+:", p.stdout, re.M))
        verdict = m.group(1) if m else ("temporal" if temporal else ("timeout" if p.returncode == 124 else "not violated"))
        if re.search(r"Error: Action property line \d+", p.stdout):
            verdict = "RefinesAbs"
        rows.append((spec, cfg, what, verdict, depth, int(states.group(2)) if states else 0, round(time.time() - t0), scen))
        print(rows[-1], flush=True)
    os.remove(os.path.join(SPECS, "_mut_tmp.cfg"))
    with open(os.path.join(SPECS, "KILLMATRIX.md"), "w") as f:
        f.write("# Specification mutants (generated by tools/spec_mutants.py)\n\nFor each mechanism switched off in the MODEL, TLC's verdict on the design config that the checks use.\n`not violated` means the bounded config has no witness (the mutant is then not assumed to break anything).\n\n| spec | config | mutant | TLC verdict | trace length | distinct states | s | carried to the code by |\n|---|---|---|---|---|---|---|---|\n")
        for r in rows:
            f.write("| %s | %s | %s | %s | %d | %d | %d | %s |\n" % r)
main()
