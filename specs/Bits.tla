-------------------------------- MODULE Bits --------------------------------
(***************************************************************************)
(* Bit-level specification of the packed words of kaist-cp/circ.           *)
(*                                                                         *)
(*  - the count word  epoch:HW | destructed | weaked | weak | strong       *)
(*    (src/utils.rs:40-116), with the Rust helpers transcribed literally   *)
(*    as operations on bit vectors, next to their meaning on field records *)
(*  - the tagged pointer  timestamp:HW | address | tag                      *)
(*    (src/ebr_impl/pointers.rs:59-153)                                    *)
(*  - the modular epoch comparison (src/utils.rs:118-149, 359-365)         *)
(*                                                                         *)
(* Everything is parametric in the word width W and the stamp width HW:    *)
(* the theorems are checked exhaustively by TLC for a small layout, and    *)
(* the same operators at W = 64, HW = 4 judge every row the real           *)
(* implementation produced (TraceBits.tla).                                *)
(***************************************************************************)
EXTENDS Integers, Sequences, FiniteSets, TLC

CONSTANTS W, HW

\* bit vectors: index 1 is the least significant bit
BV       == [1..W -> {0, 1}]
Pow2(n)  == 2 ^ n
FromNat(n) == [i \in 1..W |-> IF i > 31 THEN 0 ELSE (n \div Pow2(i - 1)) % 2]
\* value of the n bits starting at (0-based) position lo; n <= 30
RECURSIVE SumBits(_, _, _)
SumBits(w, lo, n) == IF n = 0 THEN 0 ELSE w[lo + 1] + 2 * SumBits(w, lo + 1, n - 1)
Field(w, lo, n) == SumBits(w, lo, n)
And(a, b) == [i \in 1..W |-> a[i] * b[i]]
Or(a, b)  == [i \in 1..W |-> IF a[i] + b[i] > 0 THEN 1 ELSE 0]
Not(a)    == [i \in 1..W |-> 1 - a[i]]
Shl(a, k) == [i \in 1..W |-> IF i - k >= 1 THEN a[i - k] ELSE 0]
Shr(a, k) == [i \in 1..W |-> IF i + k <= W THEN a[i + k] ELSE 0]
Add(a, b) == LET c[i \in 0..W] == IF i = 0 THEN 0 ELSE (a[i] + b[i] + c[i - 1]) \div 2
             IN [i \in 1..W |-> (a[i] + b[i] + c[i - 1]) % 2]
One       == [i \in 1..W |-> IF i = 1 THEN 1 ELSE 0]
Sub(a, b) == Add(a, Add(Not(b), One))          \* wrapping
Mask(lo, n) == [i \in 1..W |-> IF i >= lo + 1 /\ i <= lo + n THEN 1 ELSE 0]
BitAt(p)  == Mask(p, 1)
ZeroBV    == [i \in 1..W |-> 0]
\* multiplication of a small natural by a power-of-two unit (val as u64 * COUNT)
Scaled(v, pos) == Shl(FromNat(v), pos)

---------------------------------------------------------------------------
\* count word: constants exactly as computed in utils.rs:40-51
EPOCH_WIDTH       == HW
EPOCH_MASK_HEIGHT == W - EPOCH_WIDTH
EPOCH             == Mask(EPOCH_MASK_HEIGHT, EPOCH_WIDTH)
DESTRUCTED        == BitAt(EPOCH_MASK_HEIGHT - 1)
WEAKED            == BitAt(EPOCH_MASK_HEIGHT - 2)
TOTAL_COUNT_WIDTH == W - EPOCH_WIDTH - 2
WEAK_WIDTH        == TOTAL_COUNT_WIDTH \div 2
STRONG_WIDTH      == TOTAL_COUNT_WIDTH - WEAK_WIDTH
STRONG            == Mask(0, STRONG_WIDTH)
WEAK              == Mask(STRONG_WIDTH, WEAK_WIDTH)

\* State::* transcribed (utils.rs:63-116)
St_epoch(w)      == Field(Shr(And(w, EPOCH), EPOCH_MASK_HEIGHT), 0, EPOCH_WIDTH)
St_strong(w)     == Field(And(w, STRONG), 0, STRONG_WIDTH)
St_weak(w)       == Field(Shr(And(w, WEAK), STRONG_WIDTH), 0, WEAK_WIDTH)
St_destructed(w) == And(w, DESTRUCTED) # ZeroBV
St_weaked(w)     == And(w, WEAKED) # ZeroBV
St_with_epoch(w, e)  == Or(And(w, Not(EPOCH)), And(Shl(FromNat(e), EPOCH_MASK_HEIGHT), EPOCH))
St_add_strong(w, v)  == Add(w, Scaled(v, 0))
St_sub_strong(w, v)  == Sub(w, Scaled(v, 0))
St_add_weak(w, v)    == Add(w, Scaled(v, STRONG_WIDTH))
St_sub_weak(w, v)    == Sub(w, Scaled(v, STRONG_WIDTH))      \* fetch_sub(WEAK_COUNT)
St_with_destructed(w, b) == Or(And(w, Not(DESTRUCTED)), IF b THEN DESTRUCTED ELSE ZeroBV)
St_with_weaked(w, b)     == Or(And(w, Not(WEAKED)), IF b THEN WEAKED ELSE ZeroBV)
St_initial(s)        == Add(Scaled(s, 0), Scaled(1, STRONG_WIDTH))

\* meaning: the record of fields
Fields(w) == [e |-> Field(w, EPOCH_MASK_HEIGHT, EPOCH_WIDTH),
              d |-> w[EPOCH_MASK_HEIGHT] = 1,
              k |-> w[EPOCH_MASK_HEIGHT - 1] = 1,
              weak |-> Field(w, STRONG_WIDTH, WEAK_WIDTH),
              strong |-> Field(w, 0, STRONG_WIDTH)]
\* C12, first half: accessors read the field; updating one field never changes another
StateAccessors(w) ==
  LET f == Fields(w) IN
  /\ St_epoch(w) = f.e /\ St_strong(w) = f.strong /\ St_weak(w) = f.weak
  /\ St_destructed(w) = f.d /\ St_weaked(w) = f.k
StateFrames(w, v, e, b) ==
  LET f == Fields(w) IN
  /\ Fields(St_with_epoch(w, e)) = [f EXCEPT !.e = e % Pow2(EPOCH_WIDTH)]
  /\ (f.strong + v < Pow2(STRONG_WIDTH)) => Fields(St_add_strong(w, v)) = [f EXCEPT !.strong = @ + v]
  /\ (f.strong >= v) => Fields(St_sub_strong(w, v)) = [f EXCEPT !.strong = @ - v]
  /\ (f.weak + v < Pow2(WEAK_WIDTH)) => Fields(St_add_weak(w, v)) = [f EXCEPT !.weak = @ + v]
  /\ (f.weak >= v) => Fields(St_sub_weak(w, v)) = [f EXCEPT !.weak = @ - v]
  /\ Fields(St_with_destructed(w, b)) = [f EXCEPT !.d = b]
  /\ Fields(St_with_weaked(w, b)) = [f EXCEPT !.k = b]

---------------------------------------------------------------------------
\* tagged pointer for a pointee of alignment 2^k (pointers.rs:59-153)
HIGH_TAG_WIDTH   == HW
HighBitsPos      == W - HIGH_TAG_WIDTH
HighBits         == Mask(HighBitsPos, HIGH_TAG_WIDTH)
LowBits(k)       == Mask(0, k)
Tg_tag(p, k)      == Field(And(p, LowBits(k)), 0, k)
Tg_high_tag(p)    == Field(Shr(And(p, HighBits), HighBitsPos), 0, HIGH_TAG_WIDTH)
Tg_as_raw(p, k)   == And(And(p, Not(LowBits(k))), Not(HighBits))
Tg_with_tag(p, g, k) == Or(And(p, Not(LowBits(k))), And(g, LowBits(k)))
Tg_with_high_tag(p, t) == Or(And(p, Not(HighBits)), Shl(And(t, Mask(0, HIGH_TAG_WIDTH)), HighBitsPos))
Tg_is_null(p, k)  == Tg_as_raw(p, k) = ZeroBV
Tg_ptr_eq(a, b)   == Tg_with_high_tag(a, ZeroBV) = Tg_with_high_tag(b, ZeroBV)
\* meaning: (address, user tag, timestamp)
Ptr(p, k) == [addr |-> And(And(p, Not(LowBits(k))), Not(HighBits)), tag |-> Field(p, 0, k), ts |-> Field(p, HighBitsPos, HIGH_TAG_WIDTH)]
\* C11: tagging never corrupts the address; the timestamp is invisible
TaggedLaws(p, g, t, k) ==
  LET q == Tg_with_tag(p, g, k)  h == Tg_with_high_tag(p, t) IN
  /\ Tg_tag(q, k) = Field(g, 0, k)                         \* round trip, truncated to the alignment bits
  /\ Tg_as_raw(q, k) = Tg_as_raw(p, k)                     \* address unchanged
  /\ Tg_high_tag(q) = Tg_high_tag(p)
  /\ Tg_as_raw(h, k) = Tg_as_raw(p, k) /\ Tg_tag(h, k) = Tg_tag(p, k)
  /\ Tg_high_tag(h) = Field(t, 0, HIGH_TAG_WIDTH)
  /\ Tg_is_null(h, k) = Tg_is_null(p, k) /\ Tg_ptr_eq(h, p)
  /\ Tg_is_null(p, k) => Tg_is_null(q, k)                  \* a tagged null is still null
  /\ Tg_ptr_eq(p, q) = (Tg_tag(p, k) = Tg_tag(q, k))

---------------------------------------------------------------------------
\* Modular<WIDTH> on isize (utils.rs:118-149): Rust's % truncates toward zero
TruncRem(a, n) == IF a >= 0 THEN a % n ELSE -((-a) % n)
MW == Pow2(HW)
Md_trans(max, val) == TruncRem(val - (max + 1), MW)
Md_inver(max, val) == TruncRem(val + (max + 1), MW)
Md_le(max, a, b)   == Md_trans(max, a) <= Md_trans(max, b)
Md_max(max, S)     == LET T == {Md_trans(max, TruncRem(x, MW)) : x \in S}
                          m == CHOOSE y \in T : \A z \in T : z <= y
                      IN Md_inver(max, m)
\* the decision of dispose_general_node (utils.rs:359-365) and the merged stamp (386-391)
CascadeOld(stamp, cur) == Md_le(cur + 1, stamp, cur - 3)
Merged(cur, S)         == Md_max(cur + 1, S) % MW       \* with_epoch(next_epoch as _) masks the value
\* meaning: a stamp written `age` epochs ago
StampOf(cur, age) == (cur - age) % MW
\* C12, second half: never "old enough" below the threshold, for any current epoch and true age
\* (also beyond one wrap); old enough throughout the unambiguous window
WindowLaw(cur, age) ==
  /\ CascadeOld(StampOf(cur, age), cur) => age >= 3
  /\ (age >= 3 /\ age <= MW - 3) => CascadeOld(StampOf(cur, age), cur)
\* the merged stamp is the youngest of its arguments (least true age), for ages inside one window
MergeLaw(cur, a1, a2, a3) ==
  LET m == Merged(cur, {StampOf(cur, a1), StampOf(cur, a2), StampOf(cur, a3)})
      least == CHOOSE a \in {a1, a2, a3} : \A b \in {a1, a2, a3} : a <= b
  IN m = StampOf(cur, least)
=============================================================================
