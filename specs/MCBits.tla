------------------------------- MODULE MCBits -------------------------------
(* Exhaustive check of the theorems of Bits.tla on a small layout, and of the
   window/merge laws of the modular comparison at the real stamp width. *)
EXTENDS Bits
CONSTANTS MaxCur, MaxAge, Aligns
VARIABLES w, v, g, k, mode, cur, age
BitsInit ==
  \/ /\ mode = "state" /\ w \in BV /\ v \in 0..(Pow2(STRONG_WIDTH) - 1) /\ g = ZeroBV /\ k = 0 /\ cur = 0 /\ age = 0
  \/ /\ mode = "tagged" /\ w \in BV /\ g \in {FromNat(x) : x \in 0..(Pow2(W \div 2) - 1)} /\ k \in Aligns /\ v \in 0..(Pow2(HW) + 1) /\ cur = 0 /\ age = 0
  \/ /\ mode = "modular" /\ w = ZeroBV /\ g = ZeroBV /\ k = 0 /\ v = 0 /\ cur \in 0..MaxCur /\ age \in 0..MaxAge /\ age <= cur
BitsNext == UNCHANGED <<w, v, g, k, mode, cur, age>>
BitsSpec == BitsInit /\ [][BitsNext]_<<w, v, g, k, mode, cur, age>>
C12Fields == mode = "state" => StateAccessors(w) /\ \A e \in 0..(2 * Pow2(HW)) : \A b \in BOOLEAN : StateFrames(w, v, e, b)
C11Tagged == mode = "tagged" => TaggedLaws(w, g, FromNat(v), k)
C12Window == mode = "modular" => WindowLaw(cur, age)
C12Merge == mode = "modular" =>
   \A a2, a3 \in 0..(MW - 3) : (age <= MW - 3 /\ a2 <= cur /\ a3 <= cur) => MergeLaw(cur, age, a2, a3)
=============================================================================
