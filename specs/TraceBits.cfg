SPECIFICATION TSpec
CONSTANTS
  W = 64
  HW = 4
INVARIANT Report
POSTCONDITION Accepted
CHECK_DEADLOCK FALSE
