------------------------------- MODULE Circ -------------------------------
(***************************************************************************)
(* Count layer + pointer layer of kaist-cp/circ over an abstract EBR.      *)
(* One action per access of a shared word (src/utils.rs, src/strong.rs,    *)
(* src/weak.rs); load+CAS retry loops whose new value depends only on the  *)
(* loaded value are one action at the successful CAS.  Reads of the global *)
(* epoch outside such loops are separate actions.                          *)
(*                                                                         *)
(* Fix  : set of repairs in force   ("pin","inc","mark","stamp","wmany")   *)
(* Mut  : set of seeded mutations (witness generation only)                *)
(***************************************************************************)
EXTENDS Integers, FiniteSets, FiniteSetsExt, Sequences, TLC

CONSTANTS Thr, NObj, NCell, NWCell, Fld, MaxTag, M, InitEp, MaxEp, MaxOps, MaxDepth,
          ExpAge, CasAge, OpsEnabled, Scen, Fix, Mut

Obj   == 1..NObj
NULL  == 0
Tags  == 0..MaxTag
SLoc  == {<<"c", c>> : c \in 1..NCell} \cup {<<"f", o, f>> : o \in Obj, f \in Fld}
WLoc  == {<<"c", c>> : c \in 1..NWCell} \cup {<<"f", o>> : o \in Obj}
NullLink == [p |-> NULL, tag |-> 0, ts |-> 0]

VARIABLES gep,    \* true global epoch (Global.epoch); stamps are gep % M
          mode,   \* per thread: "out" | "in" (user guard) | "tmp" (guard taken by decrement) | "col" (collection phase of unpin)
          lep,    \* per thread: announced epoch (Local.epoch) while pinned
          cnt,    \* per object: count word [s,w,d,k,e]  (RcInner.state)
          life,   \* ghost: "free" | "live" | "dead" (payload dropped) | "gone" (block freed)
          lnk,    \* strong links (AtomicRc.link): [p,tag,ts]
          wlnk,   \* weak links (AtomicWeak.link): [p,tag,ts]
          tasks,  \* deferred functions: set of [k,o,ep,n]
          pc, reg,\* control point and locals of the call / deferred function in progress
          cret,   \* where a thread continues after its collection phase
          rc, wk, it, \* ghost: Rc / Weak handles and un-yielded iterator shares owned by t, per object
          sn, ws, \* ghost: Snapshots / WeakSnapshots valid in t's current critical section
          nops
vars == <<gep, mode, lep, cnt, life, lnk, wlnk, tasks, pc, reg, cret, rc, wk, it, sn, ws, nops>>

---------------------------------------------------------------------------
\* modular stamps (utils.rs:118-149, 359-365, 386-391); see Bits.tla for the bit-level version
Age(cur, x)  == (cur + 2 - x) % M            \* apparent age + 2, in 0..M-1
Old(x, cur)  == Age(cur, x) >= CasAge + 2    \* modu.le(x, cur - 3)
MaxStamp(cur, S) == CHOOSE x \in S : \A y \in S : Age(cur, x) <= Age(cur, y)

NoReg == [o |-> NULL, n |-> 1, e |-> 0, own |-> "none", g |-> FALSE, ret |-> "idle", res |-> FALSE,
          stk |-> <<>>, c |-> <<>>, x |-> NULL, xt |-> 0, ex |-> NULL, ext |-> 0]
ZeroCnt == [s |-> 0, w |-> 0, d |-> FALSE, k |-> FALSE, e |-> 0]

Pinned(t) == mode[t] # "out"
CanOp(t, name) == pc[t] = "idle" /\ mode[t] \in {"out", "in"} /\ nops[t] < MaxOps /\ name \in OpsEnabled
CountOps == MaxOps < 1000000            \* trace configurations are unbounded and do not count calls
Start(t) == nops' = IF CountOps THEN [nops EXCEPT ![t] = @ + 1] ELSE nops
Goto(t, l) == pc' = [pc EXCEPT ![t] = l]

AddTask(T, k, o, ep) ==
    IF \E r \in T : r.k = k /\ r.o = o /\ r.ep = ep
    THEN {IF r.k = k /\ r.o = o /\ r.ep = ep THEN [r EXCEPT !.n = @ + 1] ELSE r : r \in T}
    ELSE T \cup {[k |-> k, o |-> o, ep |-> ep, n |-> 1]}
DelTask(T, r) == IF r.n = 1 THEN T \ {r} ELSE (T \ {r}) \cup {[r EXCEPT !.n = @ - 1]}
Defer(k, o) == tasks' = AddTask(tasks, k, o, gep)

---------------------------------------------------------------------------
\* Abstract EBR (contract established by Ebr.tla, observed by the C13/C14 conformance runs)
Advance == /\ gep < MaxEp
           /\ (\A t \in Thr : Pinned(t) => lep[t] = gep) \/ "AdvancePastPinned" \in Mut
           /\ gep' = gep + 1
           /\ UNCHANGED <<mode, lep, cnt, life, lnk, wlnk, tasks, pc, reg, cret, rc, wk, it, sn, ws, nops>>

\* control point "unpin": the outermost guard is being dropped (internal.rs:456-478).
\* A collection phase runs iff must_collect is set (abstracted: nondeterministic).
UnpinChoice(t) ==
    /\ pc[t] = "unpin"
    /\ \/ /\ mode' = [mode EXCEPT ![t] = "col"] /\ Goto(t, "col") /\ UNCHANGED lep
       \/ /\ mode' = [mode EXCEPT ![t] = "out"] /\ Goto(t, cret[t]) /\ UNCHANGED lep
    /\ UNCHANGED <<gep, cnt, life, lnk, wlnk, tasks, reg, cret, rc, wk, it, sn, ws, nops>>
\* control point "col": between deferred functions of a collection (internal.rs:185-208, 460-466)
ColExec(t) ==
    /\ pc[t] = "col"
    /\ \E r \in tasks :
         /\ gep - r.ep >= ExpAge \/ "RunUnripe" \in Mut
         /\ tasks' = DelTask(tasks, r)
         /\ reg' = [reg EXCEPT ![t] = [NoReg EXCEPT !.o = r.o, !.ret = "col"]]
         /\ Goto(t, IF r.k = "destruct" THEN "td" ELSE "tdealloc")
    /\ UNCHANGED <<gep, mode, lep, cnt, life, lnk, wlnk, cret, rc, wk, it, sn, ws, nops>>
ColRepin(t) ==   \* repin_without_collect after each collect() (internal.rs:465, 492-503)
    /\ pc[t] = "col" /\ lep[t] # gep
    /\ lep' = [lep EXCEPT ![t] = gep]
    /\ UNCHANGED <<gep, mode, cnt, life, lnk, wlnk, tasks, pc, reg, cret, rc, wk, it, sn, ws, nops>>
ColExit(t) ==
    /\ pc[t] = "col"
    /\ mode' = [mode EXCEPT ![t] = "out"]
    /\ Goto(t, cret[t])
    /\ UNCHANGED <<gep, lep, cnt, life, lnk, wlnk, tasks, reg, cret, rc, wk, it, sn, ws, nops>>

\* End of a count-word subroutine that was given no guard: it took `cs()` itself
\* (utils.rs:27-38, 291-295).  If the thread was unpinned this is an outermost pin/unpin pair.
\* after(t, l): continue at l, possibly through an unpin.
AfterOwnGuard(t, l) ==
    IF mode[t] \in {"out", "tmp"}
    THEN /\ lep' = IF mode[t] = "out" THEN [lep EXCEPT ![t] = gep] ELSE lep
         /\ mode' = [mode EXCEPT ![t] = "tmp"]
         /\ cret' = [cret EXCEPT ![t] = l]
         /\ Goto(t, "unpin")
    ELSE /\ UNCHANGED <<lep, mode, cret>> /\ Goto(t, l)

---------------------------------------------------------------------------
\* decrement_strong (utils.rs:263-296): reg.o object, reg.n amount, reg.g guard passed,
\* reg.own which ghost handle it releases
DecPin(t) ==   \* repair "pin": take the guard before reading the epoch
    /\ pc[t] = "dec_pin"
    /\ IF "pin" \in Fix /\ ~reg[t].g /\ mode[t] = "out"
         THEN mode' = [mode EXCEPT ![t] = "tmp"] /\ lep' = [lep EXCEPT ![t] = gep]
         ELSE UNCHANGED <<mode, lep>>
    /\ Goto(t, "dec_ep")
    /\ UNCHANGED <<gep, cnt, life, lnk, wlnk, tasks, reg, cret, rc, wk, it, sn, ws, nops>>
DecEp(t) ==
    /\ pc[t] = "dec_ep"
    /\ reg' = [reg EXCEPT ![t].e = gep]
    /\ Goto(t, "dec_cas")
    /\ UNCHANGED <<gep, mode, lep, cnt, life, lnk, wlnk, tasks, cret, rc, wk, it, sn, ws, nops>>
DecCas(t) ==
    /\ pc[t] = "dec_cas"
    /\ LET o == reg[t].o  n == reg[t].n IN
       /\ cnt' = [cnt EXCEPT ![o].s = @ - n, ![o].e = IF "NoDecStamp" \in Mut THEN @ ELSE reg[t].e % M]
       /\ IF cnt[o].s = n /\ "NoDeferAtZero" \notin Mut THEN Defer("destruct", o) ELSE UNCHANGED tasks
       /\ rc' = IF reg[t].own = "rc" THEN [rc EXCEPT ![t][o] = @ - 1] ELSE rc
       /\ it' = IF reg[t].own = "it" THEN [it EXCEPT ![t][o] = @ - n] ELSE it
    /\ IF reg[t].g THEN UNCHANGED <<lep, mode, cret>> /\ Goto(t, reg[t].ret)
                   ELSE AfterOwnGuard(t, reg[t].ret)
    /\ UNCHANGED <<gep, life, lnk, wlnk, reg, wk, sn, ws, nops>>

\* increment_strong (utils.rs:185-196)
Inc1(t) ==
    /\ pc[t] = "inc1"
    /\ LET o == reg[t].o IN
       IF "inc" \in Fix
       THEN /\ cnt' = IF cnt[o].d THEN cnt ELSE [cnt EXCEPT ![o].s = @ + (IF @ = 0 THEN 2 ELSE 1)]
            /\ reg' = [reg EXCEPT ![t].res = ~cnt[o].d]
            /\ Goto(t, reg[t].ret)
       ELSE /\ cnt' = [cnt EXCEPT ![o].s = @ + 1]
            /\ reg' = [reg EXCEPT ![t].res = ~cnt[o].d \/ "IncIgnoresDestructed" \in Mut]
            /\ IF ~cnt[o].d /\ cnt[o].s = 0 /\ "NoToken" \notin Mut THEN Goto(t, "inc2") ELSE Goto(t, reg[t].ret)
    /\ UNCHANGED <<gep, mode, lep, life, lnk, wlnk, tasks, cret, rc, wk, it, sn, ws, nops>>
Inc2(t) ==
    /\ pc[t] = "inc2"
    /\ cnt' = [cnt EXCEPT ![reg[t].o].s = @ + 1]
    /\ Goto(t, reg[t].ret)
    /\ UNCHANGED <<gep, mode, lep, life, lnk, wlnk, tasks, reg, cret, rc, wk, it, sn, ws, nops>>

\* is_not_destructed (utils.rs:244-258)
IsndEp(t) ==   \* repair "stamp": read the epoch (pinned) to stamp the word
    /\ pc[t] = "isnd_ep"
    /\ reg' = [reg EXCEPT ![t].e = gep]
    /\ Goto(t, "isnd")
    /\ UNCHANGED <<gep, mode, lep, cnt, life, lnk, wlnk, tasks, cret, rc, wk, it, sn, ws, nops>>
Isnd(t) ==
    /\ pc[t] = "isnd"
    /\ LET o == reg[t].o IN
       /\ cnt' = IF cnt[o].d THEN cnt
                 ELSE IF cnt[o].s = 0 THEN (IF "NoUpgradeToken" \in Mut THEN cnt ELSE [cnt EXCEPT ![o].s = 1])
                 ELSE IF "stamp" \in Fix THEN [cnt EXCEPT ![o].e = reg[t].e % M] ELSE cnt
       /\ reg' = [reg EXCEPT ![t].res = ~cnt[o].d]
    /\ Goto(t, reg[t].ret)
    /\ UNCHANGED <<gep, mode, lep, life, lnk, wlnk, tasks, cret, rc, wk, it, sn, ws, nops>>

\* increment_weak (utils.rs:208-233), decrement_weak (236-241), try_dealloc (199-205)
IncW1(t) ==
    /\ pc[t] = "incw1"
    /\ LET o == reg[t].o  n == reg[t].n IN
       IF ~cnt[o].k
       THEN /\ cnt' = [cnt EXCEPT ![o].k = TRUE, ![o].w = @ + n] /\ Goto(t, reg[t].ret)
       ELSE /\ cnt' = [cnt EXCEPT ![o].w = @ + n]
            /\ IF cnt[o].w = 0 /\ "NoWeakToken" \notin Mut THEN Goto(t, "incw2") ELSE Goto(t, reg[t].ret)
    /\ UNCHANGED <<gep, mode, lep, life, lnk, wlnk, tasks, reg, cret, rc, wk, it, sn, ws, nops>>
IncW2(t) ==
    /\ pc[t] = "incw2"
    /\ cnt' = [cnt EXCEPT ![reg[t].o].w = @ + 1]
    /\ Goto(t, reg[t].ret)
    /\ UNCHANGED <<gep, mode, lep, life, lnk, wlnk, tasks, reg, cret, rc, wk, it, sn, ws, nops>>
DecW(t) ==
    /\ pc[t] = "decw"
    /\ LET o == reg[t].o IN
       /\ cnt' = [cnt EXCEPT ![o].w = @ - 1]
       /\ IF cnt[o].w = 1 THEN Defer("dealloc", o) ELSE UNCHANGED tasks
       /\ wk' = IF reg[t].own = "wk" THEN [wk EXCEPT ![t][o] = @ - 1] ELSE wk
    /\ IF reg[t].g THEN UNCHANGED <<lep, mode, cret>> /\ Goto(t, reg[t].ret)
                   ELSE AfterOwnGuard(t, reg[t].ret)
    /\ UNCHANGED <<gep, life, lnk, wlnk, reg, rc, it, sn, ws, nops>>
TDealloc(t) ==
    /\ pc[t] = "tdealloc"
    /\ IF cnt[reg[t].o].w > 0 /\ "TDeallocNoRecheck" \notin Mut
         THEN reg' = [reg EXCEPT ![t].own = "none", ![t].g = FALSE] /\ Goto(t, "decw")
         ELSE UNCHANGED reg /\ Goto(t, "free")
    /\ UNCHANGED <<gep, mode, lep, cnt, life, lnk, wlnk, tasks, cret, rc, wk, it, sn, ws, nops>>
Free(t) ==     \* RcInner::dealloc (utils.rs:170-172)
    /\ pc[t] = "free"
    /\ life' = [life EXCEPT ![reg[t].o] = "gone"]
    /\ Goto(t, reg[t].ret)
    /\ UNCHANGED <<gep, mode, lep, cnt, lnk, wlnk, tasks, reg, cret, rc, wk, it, sn, ws, nops>>

\* try_destruct (utils.rs:299-318)
TD(t) ==
    /\ pc[t] = "td"
    /\ LET o == reg[t].o IN
       IF cnt[o].s > 0 /\ "TDNoRecheck" \notin Mut
       THEN /\ reg' = [reg EXCEPT ![t].own = "none", ![t].g = FALSE, ![t].n = 1]
            /\ Goto(t, "dec_pin") /\ UNCHANGED cnt
       ELSE /\ cnt' = [cnt EXCEPT ![o].d = TRUE]
            /\ reg' = [reg EXCEPT ![t].stk = <<>>]
            /\ Goto(t, "dg0")
    /\ UNCHANGED <<gep, mode, lep, life, lnk, wlnk, tasks, cret, rc, wk, it, sn, ws, nops>>

\* dispose_general_node (utils.rs:330-415).  reg.o = node, Len(reg.stk) = depth,
\* a frame = [ne: node stamp, cur: epoch read, edges: popped non-null edges still to process]
Depth(t) == Len(reg[t].stk)
\* leaving a node: continue with the parent's remaining edges, or finish the deferred function
DGReturn(t) == IF Depth(t) = 0 THEN Goto(t, reg[t].ret) ELSE Goto(t, "dg6")
DG0(t) ==
    /\ pc[t] = "dg0"
    /\ \E rp \in BOOLEAN : lep' = IF rp THEN [lep EXCEPT ![t] = gep] ELSE lep   \* periodic repin (341-347)
    /\ IF Depth(t) >= MaxDepth
         THEN Defer("destruct", reg[t].o) /\ DGReturn(t)
         ELSE UNCHANGED tasks /\ Goto(t, "dg1")
    /\ UNCHANGED <<gep, mode, cnt, life, lnk, wlnk, reg, cret, rc, wk, it, sn, ws, nops>>
DG1(t) ==
    /\ pc[t] = "dg1"
    /\ reg' = [reg EXCEPT ![t].e = cnt[reg[t].o].e, ![t].res = cnt[reg[t].o].s > 0]   \* the loaded word: stamp, count > 0
    /\ Goto(t, "dg2")
    /\ UNCHANGED <<gep, mode, lep, cnt, life, lnk, wlnk, tasks, cret, rc, wk, it, sn, ws, nops>>
DG2(t) ==
    /\ pc[t] = "dg2"
    /\ IF Depth(t) = 0 \/ Old(reg[t].e, gep) \/ "CascadeAlways" \in Mut
         THEN IF "mark" \in Fix /\ Depth(t) > 0 /\ reg[t].res
              \* the first round of the marking loop uses the word loaded at dg1: a count there means no CAS at all
              \* (the count cannot return to 0 meanwhile: only this cascade's deferred try_destruct may take it there)
              THEN /\ Defer("destruct", reg[t].o) /\ UNCHANGED reg /\ DGReturn(t)
              ELSE /\ UNCHANGED tasks
                   /\ reg' = [reg EXCEPT ![t].stk = Append(@, [ne |-> reg[t].e, cur |-> gep, edges |-> <<>>])]
                   /\ Goto(t, IF "mark" \in Fix /\ Depth(t) > 0 THEN "dgm" ELSE "dg3")
         ELSE /\ Defer("destruct", reg[t].o) /\ UNCHANGED reg /\ DGReturn(t)
    /\ UNCHANGED <<gep, mode, lep, cnt, life, lnk, wlnk, cret, rc, wk, it, sn, ws, nops>>
DGM(t) ==   \* repair "mark": a cascaded child is marked DESTRUCTED iff its count is still 0
    /\ pc[t] = "dgm"
    /\ LET o == reg[t].o IN
       IF cnt[o].s > 0
       THEN /\ Defer("destruct", o) /\ UNCHANGED cnt
            /\ reg' = [reg EXCEPT ![t].stk = SubSeq(@, 1, Len(@) - 1)]
            /\ IF Depth(t) = 1 THEN Goto(t, reg[t].ret) ELSE Goto(t, "dg6")
       ELSE cnt' = [cnt EXCEPT ![o].d = TRUE] /\ Goto(t, "dg3") /\ UNCHANGED <<tasks, reg>>
    /\ UNCHANGED <<gep, mode, lep, life, lnk, wlnk, cret, rc, wk, it, sn, ws, nops>>
Edges(o) == LET F == {f \in Fld : lnk[<<"f", o, f>>].p # NULL}
                RECURSIVE Mk(_)
                Mk(S) == IF S = {} THEN <<>> ELSE LET f == CHOOSE x \in S : \A y \in S : x <= y
                                                  IN <<[p |-> lnk[<<"f", o, f>>].p, ts |-> lnk[<<"f", o, f>>].ts]>> \o Mk(S \ {f})
            IN Mk(F)
DG3(t) ==   \* pop_edges + payload drop (367-369)
    /\ pc[t] = "dg3"
    /\ LET o == reg[t].o  d == Depth(t)  wf == wlnk[<<"f", o>>].p IN
       /\ life' = [life EXCEPT ![o] = "dead"]
       /\ reg' = [reg EXCEPT ![t].stk[d].edges = Edges(o), ![t].x = wf]
       /\ lnk' = [l \in SLoc |-> IF l[1] = "f" /\ l[2] = o THEN NullLink ELSE lnk[l]]
       \* the payload's AtomicWeak field is dropped with the payload (weak.rs:300-310): its share of the
       \* target's weak count is released right here, inside the payload drop, before the WEAKED test
       /\ wlnk' = [wlnk EXCEPT ![<<"f", o>>] = NullLink]
       /\ Goto(t, IF wf = NULL THEN "dg4" ELSE "dg_wdecw")
    /\ UNCHANGED <<gep, mode, lep, cnt, tasks, cret, rc, wk, it, sn, ws, nops>>
DGWDecW(t) ==   \* AtomicWeak::drop -> decrement_weak(target, None) (utils.rs:263-272)
    /\ pc[t] = "dg_wdecw"
    /\ LET x == reg[t].x IN
       /\ cnt' = [cnt EXCEPT ![x].w = @ - 1]
       /\ IF cnt[x].w = 1 THEN Defer("dealloc", x) ELSE UNCHANGED tasks
    /\ reg' = [reg EXCEPT ![t].x = NULL]
    /\ Goto(t, "dg4")
    /\ UNCHANGED <<gep, mode, lep, life, lnk, wlnk, cret, rc, wk, it, sn, ws, nops>>
DG4(t) ==   \* WEAKED? (370)
    /\ pc[t] = "dg4"
    /\ Goto(t, IF cnt[reg[t].o].k /\ "DisposeFreesWeaked" \notin Mut THEN "dg_decw" ELSE "dg_free")
    /\ UNCHANGED <<gep, mode, lep, cnt, life, lnk, wlnk, tasks, reg, cret, rc, wk, it, sn, ws, nops>>
DGDecW(t) ==
    /\ pc[t] = "dg_decw"
    /\ LET o == reg[t].o IN
       /\ cnt' = [cnt EXCEPT ![o].w = @ - 1]
       /\ IF cnt[o].w = 1 THEN Defer("dealloc", o) ELSE UNCHANGED tasks
    /\ Goto(t, "dg6")
    /\ UNCHANGED <<gep, mode, lep, life, lnk, wlnk, reg, cret, rc, wk, it, sn, ws, nops>>
DGFree(t) ==
    /\ pc[t] = "dg_free"
    /\ life' = [life EXCEPT ![reg[t].o] = "gone"]
    /\ Goto(t, "dg6")
    /\ UNCHANGED <<gep, mode, lep, cnt, lnk, wlnk, tasks, reg, cret, rc, wk, it, sn, ws, nops>>
DG6(t) ==   \* next popped edge of the innermost frame: child CAS with merged stamp (386-404), recurse (407-409)
    /\ pc[t] = "dg6"
    /\ LET d == Depth(t)  fr == reg[t].stk[d] IN
       IF fr.edges = <<>>
       THEN /\ reg' = [reg EXCEPT ![t].stk = SubSeq(@, 1, d - 1)]
            /\ IF d = 1 THEN Goto(t, reg[t].ret) ELSE Goto(t, "dg6")
            /\ UNCHANGED cnt
       ELSE LET ed == Head(fr.edges)  c == ed.p IN
            /\ cnt' = [cnt EXCEPT ![c].s = @ - 1,
                                  ![c].e = IF "StampNotMax" \in Mut THEN @
                                           ELSE MaxStamp(fr.cur, {fr.ne, ed.ts, cnt[c].e})]
            /\ IF cnt[c].s = 1
                 THEN /\ reg' = [reg EXCEPT ![t].stk[d].edges = Tail(@), ![t].o = c] /\ Goto(t, "dg0")
                 ELSE /\ reg' = [reg EXCEPT ![t].stk[d].edges = Tail(@)] /\ Goto(t, "dg6")
    /\ UNCHANGED <<gep, mode, lep, life, lnk, wlnk, tasks, cret, rc, wk, it, sn, ws, nops>>

---------------------------------------------------------------------------
\* API calls (most general client)
Holds(t, o) == rc[t][o] > 0 \/ o \in sn[t]
CanUse(t, l) == l[1] = "c" \/ (Holds(t, l[2]) /\ life[l[2]] = "live")
Call(t, o, entry, ret, own, n, g) ==
    /\ reg' = [reg EXCEPT ![t] = [NoReg EXCEPT !.o = o, !.ret = ret, !.own = own, !.n = n, !.g = g]]
    /\ Goto(t, entry)
UA == UNCHANGED <<gep, mode, lep, cnt, life, lnk, wlnk, tasks, cret, rc, wk, it, sn, ws>>   \* a call start touches only pc/reg/nops

FreshObj(o) == life[o] = "free" /\ \A o2 \in Obj : life[o2] = "free" => o2 >= o
\* An Rc handle keeps the raw word it was made from, timestamp included (a handle returned by swap or a
\* successful compare_exchange carries the stamp the link had); handles are counted, not tracked, so a
\* handle's stamp is any epoch of the past.  AtomicRc::from(rc) copies the word unchanged.
HandleStamps == {0} \cup {e % M : e \in (IF gep >= M THEN gep - M + 1 ELSE 0)..gep}
NewAt(t, o, v, hs, ht) ==   \* Rc::new, optionally with next = AtomicRc::from(rc) (no re-stamping, strong.rs:375-384)
    /\ CanOp(t, "new")
    /\   /\ o \in Obj /\ hs \in HandleStamps                                         \* the handle's tag is copied too
         /\ FreshObj(o) /\ (v # NULL => rc[t][v] > 0) /\ (v = NULL => hs = 0)
         /\ life' = [life EXCEPT ![o] = "live"]
         /\ cnt' = [cnt EXCEPT ![o] = [ZeroCnt EXCEPT !.s = 1, !.w = 1]]
         /\ rc' = [rc EXCEPT ![t] = [x \in Obj |-> rc[t][x] + (IF x = o THEN 1 ELSE 0) - (IF x = v THEN 1 ELSE 0)]]
         /\ lnk' = [lnk EXCEPT ![<<"f", o, 1>>] = [p |-> v, tag |-> ht, ts |-> hs]]
    /\ Start(t)
    /\ UNCHANGED <<gep, mode, lep, wlnk, tasks, pc, reg, cret, wk, it, sn, ws>>
New(t) == \E o \in Obj, v \in Obj \cup {NULL}, hs \in HandleStamps, ht \in Tags : NewAt(t, o, v, hs, ht)
MaxMany == IF CountOps THEN 2 ELSE 4     \* bulk sizes explored by the design configurations / seen in traces
NewMany(t) ==   \* Rc::new_many::<N> / new_many_iter (strong.rs:473-494): n handles, m un-yielded shares
    /\ CanOp(t, "new_many")
    /\ \E o \in Obj, n \in 0..MaxMany, m \in 0..MaxMany :
         /\ FreshObj(o) /\ (n + m > 0 \/ "newmany0" \notin Fix)
         /\ life' = [life EXCEPT ![o] = "live"]
         /\ cnt' = [cnt EXCEPT ![o] = [ZeroCnt EXCEPT !.s = n + m, !.w = 1]]
         /\ rc' = [rc EXCEPT ![t][o] = n] /\ it' = [it EXCEPT ![t][o] = m]
    /\ Start(t)
    /\ UNCHANGED <<gep, mode, lep, lnk, wlnk, tasks, pc, reg, cret, wk, sn, ws>>
NewMany0(t) ==  \* repair "newmany0": new_many::<0> / new_many_iter(_, 0) build the object and drop it at once (strong.rs:493-497, 513-520)
    /\ CanOp(t, "new_many") /\ "newmany0" \in Fix
    /\ \E o \in Obj :
         /\ FreshObj(o)
         /\ life' = [life EXCEPT ![o] = "live"]
         /\ cnt' = [cnt EXCEPT ![o] = [ZeroCnt EXCEPT !.s = 1, !.w = 1]]
         /\ Call(t, o, "dec_pin", "idle", "none", 1, FALSE)
    /\ Start(t)
    /\ UNCHANGED <<gep, mode, lep, lnk, wlnk, tasks, cret, rc, wk, it, sn, ws>>
IterNext(t) ==
    /\ CanOp(t, "iter_next")
    /\ \E o \in Obj : it[t][o] > 0 /\ it' = [it EXCEPT ![t][o] = @ - 1] /\ rc' = [rc EXCEPT ![t][o] = @ + 1]
    /\ Start(t)
    /\ UNCHANGED <<gep, mode, lep, cnt, life, lnk, wlnk, tasks, pc, reg, cret, wk, sn, ws>>
IterEnd(t) ==   \* NewRcIter::drop (no guard) / abort(guard) (strong.rs:717-742)
    /\ CanOp(t, "iter_end")
    /\ \E o \in Obj, g \in BOOLEAN : it[t][o] > 0 /\ (g => mode[t] = "in")
         /\ Call(t, o, "dec_pin", "idle", "it", it[t][o], g)
    /\ Start(t) /\ UA
Clone(t) ==
    /\ CanOp(t, "clone")
    /\ \E o \in Obj : rc[t][o] > 0 /\ Call(t, o, "inc1", "rc_fin", "none", 1, FALSE)
    /\ Start(t) /\ UA
Counted(t) ==
    /\ CanOp(t, "counted") /\ mode[t] = "in"
    /\ \E o \in sn[t] : Call(t, o, "inc1", "rc_fin", "none", 1, FALSE)
    /\ Start(t) /\ UA
Upgrade(t) ==
    /\ CanOp(t, "upgrade")
    /\ \E o \in Obj : wk[t][o] > 0 /\ Call(t, o, "inc1", "up_fin", "none", 1, FALSE)
    /\ Start(t) /\ UA
RcFin(t) ==   \* clone/counted ignore the result of increment_strong (strong.rs:420-433, 770-778)
    /\ pc[t] = "rc_fin"
    /\ rc' = [rc EXCEPT ![t][reg[t].o] = @ + 1]
    /\ Goto(t, "idle")
    /\ UNCHANGED <<gep, mode, lep, cnt, life, lnk, wlnk, tasks, reg, cret, wk, it, sn, ws, nops>>
UpFin(t) ==
    /\ pc[t] = "up_fin"
    /\ rc' = IF reg[t].res THEN [rc EXCEPT ![t][reg[t].o] = @ + 1] ELSE rc
    /\ Goto(t, "idle")
    /\ UNCHANGED <<gep, mode, lep, cnt, life, lnk, wlnk, tasks, reg, cret, wk, it, sn, ws, nops>>
Drop(t) ==   \* Rc::drop (no guard) / Rc::finalize(guard)
    /\ CanOp(t, "drop")
    /\ \E o \in Obj, g \in BOOLEAN : rc[t][o] > 0 /\ (g => mode[t] = "in")
         /\ Call(t, o, "dec_pin", "idle", "rc", 1, g)
    /\ Start(t) /\ UA
Snap(t) ==
    /\ CanOp(t, "snap") /\ mode[t] = "in"
    /\ \E o \in Obj : rc[t][o] > 0 /\ o \notin sn[t] /\ sn' = [sn EXCEPT ![t] = @ \cup {o}]
    /\ Start(t)
    /\ UNCHANGED <<gep, mode, lep, cnt, life, lnk, wlnk, tasks, pc, reg, cret, rc, wk, it, ws>>
Load(t) ==
    /\ CanOp(t, "load") /\ mode[t] = "in"
    /\ \E l \in SLoc : CanUse(t, l) /\ lnk[l].p # NULL /\ sn' = [sn EXCEPT ![t] = @ \cup {lnk[l].p}]
    /\ Start(t)
    /\ UNCHANGED <<gep, mode, lep, cnt, life, lnk, wlnk, tasks, pc, reg, cret, rc, wk, it, ws>>

\* store / swap / compare_exchange / compare_exchange_tag on an AtomicRc (strong.rs:142-330)
Reaches(a, b) ==   \* b reachable from a through strong links (clients keep the heap acyclic)
    LET RECURSIVE R(_, _)
        R(S, n) == IF n = 0 THEN S ELSE R(S \cup {lnk[<<"f", o, f>>].p : o \in S \ {NULL}, f \in Fld}, n - 1)
    IN b \in R({a}, NObj)
LinkOpAt(t, name, entry, l, v, vt, ex, et) ==      \* the call with its arguments (trace validation binds them)
    /\ CanOp(t, name) /\ (name # "swap" => mode[t] = "in")
    /\   /\ l \in SLoc /\ CanUse(t, l)
         /\ v # NULL => (rc[t][v] > 0 /\ (l[1] = "f" => ~Reaches(v, l[2])))
         /\ IF name \in {"cas", "cas_tag"} THEN ex = NULL \/ ex \in sn[t] ELSE ex = NULL /\ et = 0
         /\ name = "cas_tag" => v = NULL
         /\ reg' = [reg EXCEPT ![t] = [NoReg EXCEPT !.c = l, !.x = v, !.xt = vt, !.ex = ex, !.ext = et]]
         /\ Goto(t, IF (v # NULL /\ name # "cas_tag") \/ (name = "cas_tag" /\ ex # NULL) THEN "ts_ep" ELSE entry)
         /\ cret' = [cret EXCEPT ![t] = entry]
    /\ Start(t)
    /\ UNCHANGED <<gep, mode, lep, cnt, life, lnk, wlnk, tasks, rc, wk, it, sn, ws>>
LinkOp(t, name, entry) ==
    \E l \in SLoc, v \in Obj \cup {NULL}, vt \in Tags, ex \in Obj \cup {NULL}, et \in Tags : LinkOpAt(t, name, entry, l, v, vt, ex, et)
LinkEp(t) ==   \* with_timestamp reads the global epoch (strong.rs:75-83)
    /\ pc[t] = "ts_ep"
    /\ reg' = [reg EXCEPT ![t].e = gep]
    /\ Goto(t, cret[t])
    /\ UNCHANGED <<gep, mode, lep, cnt, life, lnk, wlnk, tasks, cret, rc, wk, it, sn, ws, nops>>
NewLink(t) == [p |-> reg[t].x, tag |-> reg[t].xt,
               ts |-> IF reg[t].x = NULL \/ "NoLinkStamp" \in Mut THEN 0 ELSE reg[t].e % M]
Moved(t, plus, minus) == [o \in Obj |-> rc[t][o] + (IF o = plus THEN 1 ELSE 0) - (IF o = minus THEN 1 ELSE 0)]
StoreSwap(t) ==
    /\ pc[t] = "st_swap"
    /\ LET l == reg[t].c  old == lnk[l].p  v == reg[t].x IN
       /\ lnk' = [lnk EXCEPT ![l] = NewLink(t)]
       /\ rc' = [rc EXCEPT ![t] = Moved(t, NULL, v)]
       /\ IF old = NULL THEN Goto(t, "idle") /\ UNCHANGED reg
          ELSE Call(t, old, "dec_pin", "idle", "none", 1, TRUE)
    /\ UNCHANGED <<gep, mode, lep, cnt, life, wlnk, tasks, cret, wk, it, sn, ws, nops>>
SwapSwap(t) ==
    /\ pc[t] = "sw_swap"
    /\ LET l == reg[t].c IN
       /\ lnk' = [lnk EXCEPT ![l] = NewLink(t)]
       /\ rc' = [rc EXCEPT ![t] = Moved(t, lnk[l].p, reg[t].x)]
    /\ Goto(t, "idle")
    /\ UNCHANGED <<gep, mode, lep, cnt, life, wlnk, tasks, reg, cret, wk, it, sn, ws, nops>>
CasTry(t) ==   \* strong and weak CAS: the ptr_eq retry loop makes the timestamp irrelevant
    /\ pc[t] = "cas_try"
    /\ LET l == reg[t].c  cur == lnk[l] IN
       IF cur.p = reg[t].ex /\ cur.tag = reg[t].ext
       THEN /\ lnk' = [lnk EXCEPT ![l] = NewLink(t)]
            /\ rc' = [rc EXCEPT ![t] = Moved(t, reg[t].ex, reg[t].x)]
            /\ UNCHANGED sn
       ELSE /\ sn' = [sn EXCEPT ![t] = @ \cup ({cur.p} \ {NULL})]
            /\ UNCHANGED <<lnk, rc>>
    /\ Goto(t, "idle")
    /\ UNCHANGED <<gep, mode, lep, cnt, life, wlnk, tasks, reg, cret, wk, it, ws, nops>>
CasTagTry(t) ==
    /\ pc[t] = "cast_try"
    /\ LET l == reg[t].c  cur == lnk[l] IN
       IF cur.p = reg[t].ex /\ cur.tag = reg[t].ext
       THEN /\ lnk' = [lnk EXCEPT ![l] = [p |-> cur.p, tag |-> reg[t].xt,
                                          ts |-> IF cur.p = NULL THEN cur.ts ELSE reg[t].e % M]]
            /\ UNCHANGED sn
       ELSE /\ sn' = [sn EXCEPT ![t] = @ \cup ({cur.p} \ {NULL})] /\ UNCHANGED lnk
    /\ Goto(t, "idle")
    /\ UNCHANGED <<gep, mode, lep, cnt, life, wlnk, tasks, reg, cret, rc, wk, it, ws, nops>>

\* weak side (weak.rs, strong.rs:502-507, 548-556)
Downgrade(t) ==   \* Rc::downgrade / Rc::weak_many::<n>
    /\ CanOp(t, "downgrade")
    /\ \E o \in Obj, n \in 0..MaxMany : rc[t][o] > 0 /\ Call(t, o, "incw1", "wk_fin", "none", n, FALSE)
    /\ Start(t) /\ UA
WClone(t) ==      \* Weak::clone / WeakSnapshot::counted
    /\ CanOp(t, "wclone")
    /\ \E o \in Obj : (wk[t][o] > 0 \/ o \in ws[t]) /\ Call(t, o, "incw1", "wk_fin", "none", 1, FALSE)
    /\ Start(t) /\ UA
WkFin(t) ==
    /\ pc[t] = "wk_fin"
    /\ wk' = [wk EXCEPT ![t][reg[t].o] = @ + reg[t].n]
    /\ Goto(t, "idle")
    /\ UNCHANGED <<gep, mode, lep, cnt, life, lnk, wlnk, tasks, reg, cret, rc, it, sn, ws, nops>>
DropWeak(t) ==
    /\ CanOp(t, "dropweak")
    /\ \E o \in Obj : wk[t][o] > 0 /\ Call(t, o, "decw", "idle", "wk", 1, FALSE)
    /\ Start(t) /\ UA
WSnap(t) ==       \* Weak::snapshot / Snapshot::downgrade
    /\ CanOp(t, "wsnap") /\ mode[t] = "in"
    /\ \E o \in Obj : (wk[t][o] > 0 \/ o \in sn[t]) /\ o \notin ws[t] /\ ws' = [ws EXCEPT ![t] = @ \cup {o}]
    /\ Start(t)
    /\ UNCHANGED <<gep, mode, lep, cnt, life, lnk, wlnk, tasks, pc, reg, cret, rc, wk, it, sn>>
WSUpgrade(t) ==
    /\ CanOp(t, "wsupgrade") /\ mode[t] = "in"
    /\ \E o \in ws[t] : Call(t, o, IF "stamp" \in Fix THEN "isnd_ep" ELSE "isnd", "sn_fin", "none", 1, FALSE)
    /\ Start(t) /\ UA
SnFin(t) ==
    /\ pc[t] = "sn_fin"
    /\ sn' = IF reg[t].res THEN [sn EXCEPT ![t] = @ \cup {reg[t].o}] ELSE sn
    /\ Goto(t, "idle")
    /\ UNCHANGED <<gep, mode, lep, cnt, life, lnk, wlnk, tasks, reg, cret, rc, wk, it, ws, nops>>
CanUseW(t, l) == l[1] = "c" \/ (Holds(t, l[2]) /\ life[l[2]] = "live")
WLoad(t) ==
    /\ CanOp(t, "wload") /\ mode[t] = "in"
    /\ \E l \in WLoc : CanUseW(t, l) /\ wlnk[l].p # NULL /\ ws' = [ws EXCEPT ![t] = @ \cup {wlnk[l].p}]
    /\ Start(t)
    /\ UNCHANGED <<gep, mode, lep, cnt, life, lnk, wlnk, tasks, pc, reg, cret, rc, wk, it, sn>>
\* tags on weak links (weak.rs:170-253): a Weak / WeakSnapshot carries the tag of the word it came from
WTags == IF "wcas_tag" \in OpsEnabled THEN Tags ELSE {0}
WLinkOpAt(t, name, entry, l, v, vt, ex, et) ==
    /\ CanOp(t, name) /\ (name # "wswap" => mode[t] = "in")
    /\   /\ l \in WLoc /\ CanUseW(t, l) /\ (v # NULL => wk[t][v] > 0)
         /\ IF name \in {"wcas", "wcas_tag"} THEN ex = NULL \/ ex \in ws[t] ELSE ex = NULL /\ et = 0
         /\ name = "wcas_tag" => v = NULL
         /\ reg' = [reg EXCEPT ![t] = [NoReg EXCEPT !.c = l, !.x = v, !.xt = vt, !.ex = ex, !.ext = et]]
    /\ Goto(t, entry) /\ Start(t)
    /\ UNCHANGED <<gep, mode, lep, cnt, life, lnk, wlnk, tasks, cret, rc, wk, it, sn, ws>>
WLinkOp(t, name, entry) ==
    \E l \in WLoc, v \in Obj \cup {NULL}, vt \in WTags, ex \in Obj \cup {NULL}, et \in WTags : WLinkOpAt(t, name, entry, l, v, vt, ex, et)
WMoved(t, plus, minus) == [o \in Obj |-> wk[t][o] + (IF o = plus THEN 1 ELSE 0) - (IF o = minus THEN 1 ELSE 0)]
WStoreSwap(t) ==
    /\ pc[t] = "wst_swap"
    /\ LET l == reg[t].c  old == wlnk[l].p IN
       /\ wlnk' = [wlnk EXCEPT ![l] = [p |-> reg[t].x, tag |-> reg[t].xt, ts |-> 0]]
       /\ wk' = [wk EXCEPT ![t] = WMoved(t, NULL, reg[t].x)]
       /\ IF old = NULL THEN Goto(t, "idle") /\ UNCHANGED reg
          ELSE Call(t, old, "decw", "idle", "none", 1, TRUE)
    /\ UNCHANGED <<gep, mode, lep, cnt, life, lnk, tasks, cret, rc, it, sn, ws, nops>>
WSwapSwap(t) ==
    /\ pc[t] = "wsw_swap"
    /\ LET l == reg[t].c IN
       /\ wlnk' = [wlnk EXCEPT ![l] = [p |-> reg[t].x, tag |-> reg[t].xt, ts |-> 0]]
       /\ wk' = [wk EXCEPT ![t] = WMoved(t, wlnk[l].p, reg[t].x)]
    /\ Goto(t, "idle")
    /\ UNCHANGED <<gep, mode, lep, cnt, life, lnk, tasks, reg, cret, rc, it, sn, ws, nops>>
WCasTry(t) ==
    /\ pc[t] = "wcas_try"
    /\ LET l == reg[t].c  cur == wlnk[l] IN
       IF cur.p = reg[t].ex /\ cur.tag = reg[t].ext
       THEN /\ wlnk' = [wlnk EXCEPT ![l] = [p |-> reg[t].x, tag |-> reg[t].xt, ts |-> 0]]
            /\ wk' = [wk EXCEPT ![t] = WMoved(t, reg[t].ex, reg[t].x)]
            /\ UNCHANGED ws
       ELSE /\ ws' = [ws EXCEPT ![t] = @ \cup ({cur.p} \ {NULL})] /\ UNCHANGED <<wlnk, wk>>
    /\ Goto(t, "idle")
    /\ UNCHANGED <<gep, mode, lep, cnt, life, lnk, tasks, reg, cret, rc, it, sn, nops>>

WCasTagTry(t) ==   \* AtomicWeak::compare_exchange_tag (weak.rs:221-253): pointer kept, tag replaced, no count moves
    /\ pc[t] = "wcast_try"
    /\ LET l == reg[t].c  cur == wlnk[l] IN
       IF cur.p = reg[t].ex /\ cur.tag = reg[t].ext
       THEN wlnk' = [wlnk EXCEPT ![l].tag = reg[t].xt] /\ UNCHANGED ws
       ELSE ws' = [ws EXCEPT ![t] = @ \cup ({cur.p} \ {NULL})] /\ UNCHANGED wlnk
    /\ Goto(t, "idle")
    /\ UNCHANGED <<gep, mode, lep, cnt, life, lnk, tasks, reg, cret, rc, wk, it, sn, nops>>

\* guards
Pin(t) ==
    /\ CanOp(t, "pin") /\ mode[t] = "out"
    /\ mode' = [mode EXCEPT ![t] = "in"] /\ lep' = [lep EXCEPT ![t] = gep]
    /\ Start(t)
    /\ UNCHANGED <<gep, cnt, life, lnk, wlnk, tasks, pc, reg, cret, rc, wk, it, sn, ws>>
Unpin(t) ==   \* dropping the user guard: snapshots die; possibly a collection phase
    /\ pc[t] = "idle" /\ mode[t] = "in"
    /\ sn' = [sn EXCEPT ![t] = {}] /\ ws' = [ws EXCEPT ![t] = {}]
    /\ cret' = [cret EXCEPT ![t] = "idle"]
    /\ Goto(t, "unpin")
    /\ UNCHANGED <<gep, mode, lep, cnt, life, lnk, wlnk, tasks, reg, rc, wk, it, nops>>
React(t) ==   \* Guard::reactivate on the thread's only guard (guard.rs:96-100): unpin (snapshots die, possibly a
              \* collection phase), then pin again in the then-current epoch
    /\ CanOp(t, "reactivate") /\ mode[t] = "in"
    /\ sn' = [sn EXCEPT ![t] = {}] /\ ws' = [ws EXCEPT ![t] = {}]
    /\ cret' = [cret EXCEPT ![t] = "react_pin"]
    /\ Goto(t, "unpin") /\ Start(t)
    /\ UNCHANGED <<gep, mode, lep, cnt, life, lnk, wlnk, tasks, reg, rc, wk, it>>
ReactPin(t) ==
    /\ pc[t] = "react_pin" /\ mode[t] = "out"
    /\ mode' = [mode EXCEPT ![t] = "in"] /\ lep' = [lep EXCEPT ![t] = gep]
    /\ Goto(t, "idle")
    /\ UNCHANGED <<gep, cnt, life, lnk, wlnk, tasks, reg, cret, rc, wk, it, sn, ws, nops>>
Collect(t) == \* cs(); flush(); drop: a pin/unpin pair with a collection phase
    /\ CanOp(t, "collect") /\ mode[t] = "out"
    /\ mode' = [mode EXCEPT ![t] = "col"] /\ lep' = [lep EXCEPT ![t] = gep]
    /\ cret' = [cret EXCEPT ![t] = "idle"]
    /\ Goto(t, "col") /\ Start(t)
    /\ UNCHANGED <<gep, cnt, life, lnk, wlnk, tasks, reg, rc, wk, it, sn, ws>>

\* the steps of one thread: silent ones have no scheduling point of their own in the code (they happen
\* inside the step that precedes them), the others are one hook site each
Silent(t) ==
         \/ UnpinChoice(t) \/ ColExec(t) \/ ColRepin(t) \/ ColExit(t) \/ DecPin(t)
         \/ RcFin(t) \/ UpFin(t) \/ SnFin(t) \/ WkFin(t) \/ ReactPin(t)
Atomic(t) ==
         \/ DecEp(t) \/ DecCas(t) \/ Inc1(t) \/ Inc2(t) \/ IsndEp(t) \/ Isnd(t)
         \/ IncW1(t) \/ IncW2(t) \/ DecW(t) \/ TDealloc(t) \/ Free(t) \/ TD(t)
         \/ DG0(t) \/ DG1(t) \/ DG2(t) \/ DGM(t) \/ DG3(t) \/ DGWDecW(t) \/ DG4(t) \/ DGDecW(t) \/ DGFree(t) \/ DG6(t)
         \/ LinkEp(t) \/ StoreSwap(t) \/ SwapSwap(t) \/ CasTry(t) \/ CasTagTry(t)
         \/ WStoreSwap(t) \/ WSwapSwap(t) \/ WCasTry(t) \/ WCasTagTry(t)
ApiCall(t) ==
         \/ New(t) \/ NewMany(t) \/ NewMany0(t) \/ IterNext(t) \/ IterEnd(t)
         \/ Clone(t) \/ Counted(t) \/ Upgrade(t) \/ Drop(t) \/ Snap(t) \/ Load(t)
         \/ LinkOp(t, "store", "st_swap") \/ LinkOp(t, "swap", "sw_swap")
         \/ LinkOp(t, "cas", "cas_try") \/ LinkOp(t, "cas_tag", "cast_try")
         \/ Downgrade(t) \/ WClone(t) \/ DropWeak(t) \/ WSnap(t) \/ WSUpgrade(t)
         \/ WLoad(t) \/ WLinkOp(t, "wstore", "wst_swap") \/ WLinkOp(t, "wswap", "wsw_swap")
         \/ WLinkOp(t, "wcas", "wcas_try") \/ WLinkOp(t, "wcas_tag", "wcast_try")
         \/ Pin(t) \/ Unpin(t) \/ Collect(t) \/ React(t)
TStep(t) == Silent(t) \/ Atomic(t) \/ ApiCall(t)
Next == Advance \/ \E t \in Thr : TStep(t)

---------------------------------------------------------------------------
\* initial states: empty heap, or a seeded well-formed heap (Scen)
Blank(g) ==
  /\ gep = g
  /\ mode = [t \in Thr |-> "out"] /\ lep = [t \in Thr |-> 0]
  /\ tasks = {} /\ pc = [t \in Thr |-> "idle"] /\ reg = [t \in Thr |-> NoReg] /\ cret = [t \in Thr |-> "idle"]
  /\ sn = [t \in Thr |-> {}] /\ ws = [t \in Thr |-> {}] /\ nops = [t \in Thr |-> 0]
  /\ it = [t \in Thr |-> [o \in Obj |-> 0]]
Zero == [t \in Thr |-> [o \in Obj |-> 0]]
Own(S) == [t \in Thr |-> [o \in Obj |-> IF <<t, o>> \in S THEN 1 ELSE 0]]
Cnts(f) == [o \in Obj |-> IF o \in DOMAIN f THEN f[o] ELSE ZeroCnt]
C(s, w, k) == [ZeroCnt EXCEPT !.s = s, !.w = w, !.k = k]
Lives(S) == [o \in Obj |-> IF o \in S THEN "live" ELSE "free"]
Links(f) == [l \in SLoc |-> IF l \in DOMAIN f THEN [p |-> f[l], tag |-> 0, ts |-> 0] ELSE NullLink]
WLinks(f) == [l \in WLoc |-> IF l \in DOMAIN f THEN [p |-> f[l], tag |-> 0, ts |-> 0] ELSE NullLink]
Init ==
  \E g \in InitEp, a, b \in Thr : a # b /\ Blank(g) /\
    CASE Scen = "empty" ->
           /\ cnt = Cnts(<<>>) /\ life = Lives({}) /\ lnk = Links(<<>>) /\ wlnk = WLinks(<<>>)
           /\ rc = Zero /\ wk = Zero
      \* object 1 = P, P.next -> 2 = X; cell 1 -> X; a holds Rc(X), b holds Rc(P)
      [] Scen = "chain" ->
           /\ cnt = Cnts(1 :> C(1, 1, FALSE) @@ 2 :> C(3, 1, FALSE)) /\ life = Lives({1, 2})
           /\ lnk = Links(<<"f", 1, 1>> :> 2 @@ <<"c", 1>> :> 2) /\ wlnk = WLinks(<<>>)
           /\ rc = Own({<<a, 2>>, <<b, 1>>}) /\ wk = Zero
      \* P -> X, a holds Weak(X), b holds Rc(P): X reachable only through P and the weak handle
      [] Scen = "chainw" ->
           /\ cnt = Cnts(1 :> C(1, 1, FALSE) @@ 2 :> C(1, 2, TRUE)) /\ life = Lives({1, 2})
           /\ lnk = Links(<<"f", 1, 1>> :> 2) /\ wlnk = WLinks(<<>>)
           /\ rc = Own({<<b, 1>>}) /\ wk = Own({<<a, 2>>})
      \* X with one strong owner (b) and one weak owner (a)
      [] Scen = "weak" ->
           /\ cnt = Cnts(1 :> C(1, 2, TRUE)) /\ life = Lives({1})
           /\ lnk = Links(<<>>) /\ wlnk = WLinks(<<>>)
           /\ rc = Own({<<b, 1>>}) /\ wk = Own({<<a, 1>>})
      \* DAG: 1 -> 3 <- 2; a holds Rc(1), b holds Rc(2)
      [] Scen = "dag" ->
           /\ cnt = Cnts(1 :> C(1, 1, FALSE) @@ 2 :> C(1, 1, FALSE) @@ 3 :> C(2, 1, FALSE)) /\ life = Lives({1, 2, 3})
           /\ lnk = Links(<<"f", 1, 1>> :> 3 @@ <<"f", 2, 1>> :> 3) /\ wlnk = WLinks(<<>>)
           /\ rc = Own({<<a, 1>>, <<b, 2>>}) /\ wk = Zero
      \* chain of three in cell 1: 1 -> 2 -> 3; a holds Rc(2)
      [] Scen = "chain3" ->
           /\ cnt = Cnts(1 :> C(1, 1, FALSE) @@ 2 :> C(2, 1, FALSE) @@ 3 :> C(1, 1, FALSE)) /\ life = Lives({1, 2, 3})
           /\ lnk = Links(<<"c", 1>> :> 1 @@ <<"f", 1, 1>> :> 2 @@ <<"f", 2, 1>> :> 3) /\ wlnk = WLinks(<<>>)
           /\ rc = Own({<<a, 2>>}) /\ wk = Zero
Spec == Init /\ [][Next]_vars

---------------------------------------------------------------------------
\* Properties
InFlightOwner(t, o) ==
    \/ pc[t] \in {"ts_ep", "st_swap", "sw_swap", "cas_try"} /\ reg[t].x = o
    \/ pc[t] = "rc_fin" /\ reg[t].o = o
    \/ pc[t] = "up_fin" /\ reg[t].res /\ reg[t].o = o
LiveLink(l) == l[1] = "c" \/ life[l[2]] = "live"
C01 == \A t \in Thr, o \in Obj : (rc[t][o] > 0 \/ it[t][o] > 0 \/ InFlightOwner(t, o)) => life[o] = "live"
C01Link == \A l \in SLoc : (LiveLink(l) /\ lnk[l].p # NULL) => life[lnk[l].p] = "live"
C02 == \A t \in Thr : \A o \in sn[t] : life[o] = "live"
C03 == /\ \A t \in Thr, o \in Obj : (wk[t][o] > 0 \/ o \in ws[t] \/ (pc[t] = "dg_wdecw" /\ reg[t].x = o)) => life[o] \in {"live", "dead"}
       /\ \A l \in WLoc : (LiveLink(l) /\ wlnk[l].p # NULL) => life[wlnk[l].p] \in {"live", "dead"}
EpochBound == \A t \in Thr : Pinned(t) => gep \in {lep[t], lep[t] + 1}
\* C05: destruction never begins before the flag is set; the flag is stable
FlagFirst == \A o \in Obj : life[o] \in {"dead", "gone"} => cnt[o].d
FlagStable == [][\A o \in Obj : (cnt[o].d /\ life[o] = "live") => cnt'[o].d]_vars
\* each life-cycle step happens at most once and in order (C04)
Once == \A t \in Thr : /\ pc[t] = "dg3" => life[reg[t].o] = "live"
                       /\ pc[t] \in {"dg_free", "free"} => life[reg[t].o] = "dead"
                       /\ pc[t] = "dg_decw" => life[reg[t].o] = "dead"
NoUnderflow == \A t \in Thr : /\ pc[t] = "dec_cas" => cnt[reg[t].o].s >= reg[t].n
                              /\ pc[t] \in {"decw", "dg_decw"} => cnt[reg[t].o].w >= 1
                              /\ pc[t] = "dg_wdecw" => cnt[reg[t].x].w >= 1
                              /\ (pc[t] = "dg6" /\ reg[t].stk[Depth(t)].edges # <<>>) => cnt[Head(reg[t].stk[Depth(t)].edges).p].s >= 1
DepthBound == \A t \in Thr : Depth(t) <= MaxDepth + 1
TypeOK == /\ \A o \in Obj : cnt[o].s >= 0 /\ cnt[o].w >= 0
          /\ \A t \in Thr, o \in Obj : rc[t][o] >= 0 /\ wk[t][o] >= 0 /\ it[t][o] >= 0

\* no leak at quiescence (C04)
Quiescent == \A t \in Thr : pc[t] = "idle" /\ mode[t] = "out"
Owned(o)  == \E t \in Thr : rc[t][o] > 0 \/ it[t][o] > 0
Linked(o) == \E l \in SLoc : LiveLink(l) /\ lnk[l].p = o
WOwned(o) == (\E t \in Thr : wk[t][o] > 0) \/ (\E l \in WLoc : LiveLink(l) /\ wlnk[l].p = o)
Leak == (Quiescent /\ tasks = {}) =>
          \A o \in Obj : (life[o] \in {"live", "dead"} /\ ~Owned(o) /\ ~Linked(o)) => (life[o] = "dead" /\ WOwned(o))

\* WF: the count word equals owners + links + references in flight, plus at most one token, and
\* exactly one party is responsible for the object's fate iff the count is 0 or a token exists
SumOver(S, F(_)) == FoldSet(LAMBDA x, acc : acc + F(x), 0, S)
Card(S) == Cardinality(S)
DecPcs == {"dec_pin", "dec_ep", "dec_cas"}
HandleCount(o) == LET F(t) == rc[t][o] + it[t][o] IN SumOver(Thr, F)
LinksTo(o) == Card({l \in SLoc : LiveLink(l) /\ lnk[l].p = o})
\* references that left a link or handle but are not yet subtracted
InfDec(o) == LET F(t) == IF pc[t] \in DecPcs /\ reg[t].o = o /\ reg[t].own = "none" /\ reg[t].ret # "col" THEN reg[t].n ELSE 0
             IN SumOver(Thr, F)
InfInc(o) == Card({t \in Thr : pc[t] \in {"rc_fin"} /\ reg[t].o = o}) + Card({t \in Thr : pc[t] = "up_fin" /\ reg[t].res /\ reg[t].o = o})
InfEdges(o) == LET F(t) == LET G(i) == Card({j \in 1..Len(reg[t].stk[i].edges) : reg[t].stk[i].edges[j].p = o})
                           IN SumOver(1..Len(reg[t].stk), G)
               IN SumOver(Thr, F)
RealRefs(o) == HandleCount(o) + LinksTo(o) + InfDec(o) + InfInc(o) + InfEdges(o)
Tok(o) == cnt[o].s - RealRefs(o)
PendingDestruct(o) == LET F(r) == IF r.k = "destruct" /\ r.o = o THEN r.n ELSE 0 IN SumOver(tasks, F)
RespThr(o) == Card({t \in Thr : \/ (pc[t] = "td" /\ reg[t].o = o)
                                \/ (pc[t] \in DecPcs /\ reg[t].o = o /\ reg[t].own = "none" /\ reg[t].ret = "col")
                                \/ (pc[t] \in {"dg0", "dg1", "dg2", "dgm"} /\ reg[t].o = o /\ Depth(t) > 0)})
Resp(o) == PendingDestruct(o) + RespThr(o)
WF == \A o \in Obj : (life[o] = "live" /\ ~cnt[o].d) =>
        /\ Tok(o) \in {0, 1}
        /\ Resp(o) = (IF cnt[o].s = 0 \/ Tok(o) = 1 THEN 1 ELSE 0)
---------------------------------------------------------------------------
\* C06: reclamation latency under an EAGER driver - the epoch advances only when nothing that is
\* already ripe remains to be collected and every thread is between calls.  With it, the number of
\* advances between dropping the head and the last destructor is bounded by a constant plus one
\* grace period per MaxDepth nodes (the depth cut re-defers), independent of everything else.
RipeExists == \E r \in tasks : gep - r.ep >= ExpAge
EagerAdvance == Advance /\ ~RipeExists /\ \A t \in Thr : pc[t] = "idle" /\ mode[t] = "out"
EagerNext == EagerAdvance \/ (Next /\ gep' = gep)
EagerSpec == Init /\ [][EagerNext]_vars
Unreferenced(o) == ~Owned(o) /\ ~(\E l \in SLoc : l[1] = "c" /\ lnk[l].p = o)
\* every object that no handle and no root cell can reach any more
RECURSIVE ReachFrom(_, _)
ReachFrom(S, n) == IF n = 0 THEN S ELSE ReachFrom(S \cup {lnk[<<"f", o, f>>].p : o \in S \ {NULL}, f \in Fld}, n - 1)
Roots == {o \in Obj : life[o] = "live" /\ (Owned(o) \/ \E l \in SLoc : l[1] = "c" /\ lnk[l].p = o)}
Garbage == {o \in Obj : life[o] \in {"live", "dead"}} \ ReachFrom(Roots, NObj)
\* Under the eager driver no deferred function ever waits longer than ExpAge epochs, so the latency of
\* reclaiming a structure is (number of times it is re-deferred + 1) * ExpAge; the cascade re-defers
\* only at the depth cut (once per MaxDepth nodes of a path) or when a stamp is younger than CasAge.
\* The end-to-end bound C0 + C1 * ceil(n / 1024) is measured on the real crate (TraceRows.tla).
C06Latency == \A r \in tasks : gep - r.ep <= ExpAge
=============================================================================
