------------------------------- MODULE TraceQL -------------------------------
(***************************************************************************)
(* C17 / C18 on executions of the REAL queue and registry list (shim        *)
(* instances driven under the cooperative scheduler with a scheduling      *)
(* point before every atomic access of queue.rs / list.rs).  The recorder  *)
(* dumps the abstract content after every step, so each call's             *)
(* linearization step is the step in which the content changed; the        *)
(* conditions below are those of MSQueue.tla (PopOK, EmptyOK, PredOK,      *)
(* NoDangling, Refines) and RegList.tla (Complete, FinOnce) stated on the  *)
(* observed history.                                                       *)
(***************************************************************************)
EXTENDS Integers, Sequences, FiniteSets, TLC, Json, IOUtils
Rec == ndJsonDeserialize(IOEnv.TRACE)
VARIABLE l
TInit == l = 1
TNext == l < Len(Rec) /\ l' = l + 1
TSpec == TInit /\ [][TNext]_l
R == Rec[l]
HasPrev == l > 1 /\ Rec[l - 1].sc = R.sc
Q == Rec[l - 1]
Done(op) == "ret" \in DOMAIN R /\ R.ret.op = op
Set(s) == {s[i] : i \in 1..Len(s)}
Pred(r, v) == IF r.pe = 1 THEN v % 2 = 0 ELSE v < r.pb
\* ---- queue (C17)
ObsQStep == ~R.odd                       \* the content only changes by one append at the back or one removal at the front
ObsTail == R.tail_reachable               \* neither head nor tail points to a sentinel that a completed pop has retired
ObsPush == Done("push") => R.ret.put = <<R.ret.arg>> /\ R.ret.took = <<>>
ObsPop == Done("pop") => IF R.ret.some THEN R.ret.took = <<R.ret.val>> /\ R.ret.put = <<>>
                                       ELSE R.ret.took = <<>> /\ R.ret.put = <<>> /\ R.ret.empty_seen
ObsPopIf == Done("pop_if") =>
     IF R.ret.some
     THEN /\ R.ret.took = <<R.ret.val>> /\ R.ret.put = <<>>
          /\ Pred(R.ret, R.ret.val) /\ R.ret.val \in Set(R.ret.shown)       \* the predicate held for that very element
     ELSE /\ R.ret.took = <<>> /\ R.ret.put = <<>>
          /\ (R.ret.empty_seen \/ \E x \in Set(R.ret.shown) : ~Pred(R.ret, x) /\ x \in Set(R.ret.fronts))
ObsQEnd == (R.k = "fin" /\ Len(R.inserted) = 0) => R.q = <<>>
\* ---- list (C18)
Ids(r) == {r.list[i][1] : i \in 1..Len(r.list)}
Marked(r) == {r.list[i][1] : i \in {j \in 1..Len(r.list) : r.list[j][2] = 1}}
ObsTraverse == (Done("traverse") /\ ~R.ret.stalled) => Set(R.ret.req) \subseteq Set(R.ret.seen)
ObsFinOnce == /\ Cardinality(Set(R.fin)) = Len(R.fin)                        \* finalized at most once
              /\ Set(R.fin) \subseteq Set(R.deleted)                         \* only after its logical deletion
              /\ Set(R.fin) \cap Ids(R) = {}                                 \* and only once unlinked
ObsUnlink == HasPrev => (Ids(Q) \ Ids(R)) \subseteq Marked(Q)                \* only marked entries get unlinked
ObsLEnd == (R.k = "fin" /\ Len(R.inserted) > 0) => (R.list = <<>> /\ Set(R.fin) = Set(R.inserted))
ObsNoPanic == R.k # "abort"
V(name, ok) == ok \/ PrintT(<<"VIOL", name, R.sc, l>>)
Report == /\ V("ObsQStep", ObsQStep) /\ V("ObsTail", ObsTail) /\ V("ObsPush", ObsPush) /\ V("ObsPop", ObsPop) /\ V("ObsPopIf", ObsPopIf)
          /\ V("ObsQEnd", ObsQEnd) /\ V("ObsTraverse", ObsTraverse) /\ V("ObsFinOnce", ObsFinOnce) /\ V("ObsUnlink", ObsUnlink)
          /\ V("ObsLEnd", ObsLEnd) /\ V("ObsNoPanic", ObsNoPanic)
Accepted == (TLCGet("stats").diameter = Len(Rec) /\ PrintT(<<"ACCEPTED", Len(Rec)>>))
            \/ PrintT(<<"REJECTED", TLCGet("stats").diameter, Len(Rec)>>)
=============================================================================
