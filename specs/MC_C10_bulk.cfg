SPECIFICATION Spec
CONSTANTS
  Thr = {t1, t2}
  NObj = 1
  NCell = 1
  NWCell = 1
  Fld = {1}
  MaxTag = 0
  M = 16
  InitEp = {0}
  MaxEp = 4
  MaxOps = 3
  MaxDepth = 3
  ExpAge = 3
  CasAge = 3
  OpsEnabled = {"new_many","iter_next","iter_end","drop","collect","pin"}
  Scen = "empty"
  Fix = {"pin", "inc", "mark", "stamp", "wmany", "newmany0"}
  Mut = {}
INVARIANTS TypeOK C01 C01Link C02 C03 Once NoUnderflow EpochBound DepthBound FlagFirst Leak WF
CHECK_DEADLOCK FALSE
