-------------------------- MODULE TraceCircStrict --------------------------
(***************************************************************************)
(* Step-relation trace validation for the reference-counting layer: every  *)
(* recorded line of a real execution must be explained by an ACTION of     *)
(* Circ.tla.                                                               *)
(*                                                                         *)
(*  - the control point of every thread is bound through the hook site it  *)
(*    is blocked at (SitePc): one code step = one Atomic action, a step    *)
(*    inside a retry loop that changes nothing is a stutter;               *)
(*  - actions of the specification without a site of their own (taking the *)
(*    temporary guard, booking a result, choosing the next deferred        *)
(*    function of a collection, leaving the collection) are SILENT: they   *)
(*    fire, without consuming a line, exactly while some thread's control  *)
(*    point or the observable state disagrees with the current line;       *)
(*  - count words, links (incl. timestamps), epochs, pinned bits, life      *)
(*    cycle and the set of pending deferred functions must equal the line  *)
(*    (Settled) before the next line is consumed; registers (the epoch a   *)
(*    thread read, the stamps a cascade merged) are inferred by TLC;       *)
(*  - calls outside the modelled vocabulary (harness plumbing, bulk        *)
(*    constructors, tags on handles) RESYNC the state from the line.       *)
(* Acceptance: the last line is reached and settled.                       *)
(***************************************************************************)
EXTENDS TraceCirc

SitePc(s) ==
  CASE s = 0 -> {"idle"}
    [] s = 1 -> {"inc1"}           [] s \in {3, 4} -> {"isnd"}      [] s = 5 -> {"isnd_ep"}
    [] s = 10 -> {"dec_ep"}        [] s \in {11, 12} -> {"dec_cas"} [] s \in {20, 21} -> {"td"}
    [] s = 30 -> {"dg0"} [] s = 31 -> {"dg1"} [] s = 32 -> {"dg2"} [] s = 38 -> {"dgm"} [] s = 36 -> {"dg3"}
    [] s = 33 -> {"dg4"} [] s \in {34, 35} -> {"dg6"} [] s = 37 -> {"free", "dg_free"}
    [] s \in {40, 41, 42} -> {"incw1"} [] s = 43 -> {"incw2"} [] s = 44 -> {"decw", "dg_decw", "dg_wdecw"} [] s = 45 -> {"tdealloc"}
    [] s = 60 -> {"ts_ep"} [] s = 61 -> {"st_swap", "sw_swap", "cas_try", "cast_try"}
    [] s = 62 -> {"idle"} [] s = 63 -> {"ts_ep", "st_swap"} [] s = 64 -> {"ts_ep", "sw_swap"}
    [] s \in {65, 66} -> {"cas_try"} [] s = 67 -> {"cast_try"}
    [] s = 80 -> {"idle"} [] s = 81 -> {"wst_swap"} [] s = 82 -> {"wsw_swap"} [] s \in {83, 84} -> {"wcas_try"} [] s = 85 -> {"wcast_try"}
    [] OTHER -> {"?"}

Unsupported == {"give", "recv", "release_all", "clear_cells"}

\* observable agreement between the model state and a line
ObsEq(r) ==
  /\ gep = r.gep
  /\ \A o \in Obj : life[o] = LifeOf(r, o) /\ (life[o] \in {"live", "dead"} => cnt[o] = CntOf(r, o))
  /\ \A loc \in SLoc : lnk[loc] = LnkOf(r, loc)
  /\ \A loc \in WLoc : wlnk[loc].p = WLnkOf(r, loc).p /\ wlnk[loc].tag = WLnkOf(r, loc).tag
  /\ \A t \in Thr : (mode[t] # "out") = r.thr[t].pin /\ (r.thr[t].pin => lep[t] = r.thr[t].lep)
  /\ tasks = TaskSet(r)
PcOk(r, t) == pc[t] = "ext" \/ pc[t] \in SitePc(r.thr[t].site)
Settled(r) == (\A t \in Thr : PcOk(r, t)) /\ ObsEq(r)

\* the frame-pop of the cascade has no site either
PopFrame(t) == pc[t] = "dg6" /\ reg[t].stk # <<>> /\ reg[t].stk[Len(reg[t].stk)].edges = <<>> /\ DG6(t)
\* increment_strong loads the word before its first hooked CAS: a load that sees DESTRUCTED returns at once
FastFail(t) == pc[t] = "inc1" /\ cnt[reg[t].o].d /\ Inc1(t)
StrictSilent(t) == Silent(t) \/ PopFrame(t) \/ FastFail(t)

\* ---- consuming a line
ActOp(r) == IF r.k = "start" THEN r.opn ELSE IF r.t = 0 THEN "" ELSE Rec[l].thr[r.t].op
NullTarget(r) == "ret" \in DOMAIN r /\ r.k = "start" /\ r.ret.tgt = 0
                 /\ r.opn \in {"clone", "drop", "counted", "upgrade", "downgrade", "wclone", "dropweak", "wsupgrade", "wcounted", "snap", "wsnap", "snapdown", "finalize", "weak_many"}
Skip(r) == \/ r.k \in {"reset", "setup", "fin", "abort"}
           \/ ActOp(r) \in Unsupported
           \/ NullTarget(r)
           \/ (r.t # 0 /\ pc[r.t] = "ext")
Resync(r) ==
  /\ gep' = r.gep
  /\ mode' = [t \in Thr |-> ModeOf(r.thr[t])] /\ lep' = [t \in Thr |-> r.thr[t].lep]
  /\ cnt' = [o \in Obj |-> CntOf(r, o)] /\ life' = [o \in Obj |-> LifeOf(r, o)]
  /\ lnk' = [loc \in SLoc |-> LnkOf(r, loc)]
  /\ wlnk' = [loc \in WLoc |-> [p |-> WLnkOf(r, loc).p, tag |-> WLnkOf(r, loc).tag, ts |-> 0]]
  /\ tasks' = TaskSet(r)
  /\ rc' = [t \in Thr |-> [o \in Obj |-> CountOf(r.own[t].rc, o)]]
  /\ wk' = [t \in Thr |-> [o \in Obj |-> CountOf(r.own[t].wk, o)]]
  /\ it' = [t \in Thr |-> [o \in Obj |-> CountOf(r.own[t].it, o)]]
  /\ sn' = [t \in Thr |-> {o \in Obj : CountOf(r.own[t].sn, o) > 0}]
  /\ ws' = [t \in Thr |-> {o \in Obj : CountOf(r.own[t].ws, o) > 0}]
  /\ nops' = nops
  /\ IF r.t = 0 \/ r.k = "reset"    \* a new scenario forgets every register (otherwise alternatives never merge)
       THEN pc' = [t \in Thr |-> "idle"] /\ reg' = [t \in Thr |-> NoReg] /\ cret' = [t \in Thr |-> "idle"]
       ELSE /\ pc' = [pc EXCEPT ![r.t] = IF r.thr[r.t].busy THEN "ext" ELSE "idle"]
            /\ reg' = [reg EXCEPT ![r.t] = NoReg] /\ cret' = [cret EXCEPT ![r.t] = "idle"]

LocOf(a) == IF a.k = "c" THEN <<"c", a.o>> ELSE <<"f", a.o, a.f>>
WLocOf(a) == IF a.k = "c" THEN <<"c", a.o>> ELSE <<"f", a.o>>
SnOf(r, t) == {o \in Obj : CountOf(r.own[t].sn, o) > 0}
WsOf(r, t) == {o \in Obj : CountOf(r.own[t].ws, o) > 0}
\* (the model's snapshot sets only grow inside a critical section; the harness may overwrite a slot, so the
\*  recorded set is a subset)
LoadDone(t, r) == \/ r.ret.op = "load" /\ ((Load(t) /\ SnOf(r, t) \subseteq sn'[t]) \/ (SnOf(r, t) \subseteq sn[t] /\ UNCHANGED vars))
                  \/ r.ret.op = "wload" /\ ((WLoad(t) /\ WsOf(r, t) \subseteq ws'[t]) \/ (WsOf(r, t) \subseteq ws[t] /\ UNCHANGED vars))
Api(t, r) ==
  LET n == r.opn  a == r.args IN
  CASE n = "drop" -> Drop(t) /\ reg'[t].o = a.tgt /\ ~reg'[t].g
    [] n = "clone" -> Clone(t) /\ reg'[t].o = a.tgt
    [] n = "counted" -> Counted(t) /\ reg'[t].o = a.tgt
    [] n = "upgrade" -> Upgrade(t) /\ reg'[t].o = a.tgt
    [] n = "downgrade" -> Downgrade(t) /\ reg'[t].o = a.tgt /\ reg'[t].n = 1
    [] n \in {"wclone", "wcounted"} -> WClone(t) /\ reg'[t].o = a.tgt
    [] n = "dropweak" -> DropWeak(t) /\ reg'[t].o = a.tgt
    [] n = "wsupgrade" -> WSUpgrade(t) /\ reg'[t].o = a.tgt
    [] n = "snap" -> Snap(t) \/ (UNCHANGED vars)            \* a second snapshot of the same object changes nothing
    [] n \in {"wsnap", "snapdown"} -> WSnap(t) \/ (UNCHANGED vars)
    \* a load has a hook site before its read: the ghost effect belongs to the line on which the call returns
    [] n = "load" -> IF "ret" \in DOMAIN r THEN LoadDone(t, r) ELSE UNCHANGED vars
    [] n = "wload" -> IF "ret" \in DOMAIN r THEN LoadDone(t, r) ELSE UNCHANGED vars
    [] n = "store" -> LinkOpAt(t, "store", "st_swap", LocOf(a.loc), a.des.o, a.des.tag, NULL, 0)
    [] n = "swap" -> LinkOpAt(t, "swap", "sw_swap", LocOf(a.loc), a.des.o, a.des.tag, NULL, 0)
    [] n \in {"cas", "cas_weak"} -> LinkOpAt(t, "cas", "cas_try", LocOf(a.loc), a.des.o, a.des.tag, a.exp.o, a.exp.tag)
    [] n = "cas_tag" -> LinkOpAt(t, "cas_tag", "cast_try", LocOf(a.loc), NULL, a.ntag, a.exp.o, a.exp.tag)
    [] n = "wstore" -> WLinkOpAt(t, "wstore", "wst_swap", WLocOf(a.loc), a.des.o, a.des.tag, NULL, 0)
    [] n = "wswap" -> WLinkOpAt(t, "wswap", "wsw_swap", WLocOf(a.loc), a.des.o, a.des.tag, NULL, 0)
    [] n \in {"wcas", "wcas_weak"} -> WLinkOpAt(t, "wcas", "wcas_try", WLocOf(a.loc), a.des.o, a.des.tag, a.exp.o, a.exp.tag)
    [] n = "wcas_tag" -> WLinkOpAt(t, "wcas_tag", "wcast_try", WLocOf(a.loc), NULL, a.ntag, a.exp.o, a.exp.tag)
    [] n = "finalize" -> Drop(t) /\ reg'[t].o = a.tgt /\ reg'[t].g
    [] n = "weak_many" -> Downgrade(t) /\ reg'[t].o = a.tgt /\ reg'[t].n = a.ntag
    [] n \in {"new_many", "iter_new"} /\ a.ntag = 0 -> NewMany0(t)
    [] n \in {"new_many", "iter_new"} -> NewMany(t) /\ life' = [o \in Obj |-> LifeOf(r, o)]
                                          /\ rc'[t] = [o \in Obj |-> CountOf(r.own[t].rc, o)] /\ it'[t] = [o \in Obj |-> CountOf(r.own[t].it, o)]
    [] n = "iter_next" -> IF a.tgt # 0 /\ it[t][a.tgt] > 0 THEN IterNext(t) /\ it'[t][a.tgt] = it[t][a.tgt] - 1 ELSE UNCHANGED vars
    [] n = "iter_drop" -> IF a.tgt # 0 /\ it[t][a.tgt] > 0 THEN IterEnd(t) /\ reg'[t].o = a.tgt /\ ~reg'[t].g ELSE UNCHANGED vars
    [] n = "iter_abort" -> IF a.tgt # 0 /\ it[t][a.tgt] > 0 THEN IterEnd(t) /\ reg'[t].o = a.tgt /\ reg'[t].g ELSE UNCHANGED vars
    [] n = "reactivate" -> React(t)
    [] n \in {"flush", "with_tag"} -> UNCHANGED vars    \* flush only schedules a collection (UnpinChoice is free anyway);
                                                       \* the tag of a handle is not part of the model's state
    [] n = "pin" -> Pin(t)
    [] n = "unpin" -> Unpin(t)
    [] n = "collect" -> Collect(t)
    [] n = "new" -> LET o == r.ret.outs[1].o  lk == LnkOf(r, <<"f", o, 1>>) IN NewAt(t, o, lk.p, lk.ts, lk.tag)
    [] OTHER -> FALSE
Consume(r) ==
  IF Skip(r) THEN Resync(r)
  ELSE CASE r.k = "adv" -> IF r.what = "ok" THEN Advance ELSE UNCHANGED vars
         [] r.k = "start" -> Api(r.t, r)
         [] r.k = "step" -> IF "ret" \in DOMAIN r /\ r.ret.op \in {"load", "wload"} THEN LoadDone(r.t, r)
                            ELSE Atomic(r.t) \/ UNCHANGED vars
         [] OTHER -> FALSE

SInit == l = 1 /\ Obs(Rec[1]) /\ TLCSet(1, 1) /\ TLCSet(2, <<>>)
SNext == \/ /\ Settled(Rec[l]) /\ l < Len(Rec) /\ l' = l + 1 /\ Consume(Rec[l + 1])
         \/ /\ ~Settled(Rec[l]) /\ l' = l
            /\ \E t \in Thr : ~(PcOk(Rec[l], t) /\ pc[t] \notin {"dec_pin", "unpin", "col", "rc_fin", "up_fin", "sn_fin", "wk_fin", "react_pin"}) /\ StrictSilent(t)
SSpec == SInit /\ [][SNext]_<<vars, l>>
\* furthest settled line (one worker)
Track == (Settled(Rec[l]) /\ l > TLCGet(1)) => (TLCSet(1, l) /\ TLCSet(2, <<pc, reg, mode, cret>>))
SAccepted == (TLCGet(1) = Len(Rec) /\ PrintT(<<"STRICT-ACCEPTED", Len(Rec)>>))
             \/ PrintT(<<"STRICT-REJECTED", TLCGet(1), Len(Rec), Rec[TLCGet(1)].sc, TLCGet(2)>>)
=============================================================================
