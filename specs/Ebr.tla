-------------------------------- MODULE Ebr --------------------------------
(***************************************************************************)
(* Fine-grained model of the modified crossbeam-epoch in src/ebr_impl.     *)
(* One action per access of a shared word (global epoch, a participant's   *)
(* announced epoch, the garbage queue) in internal.rs; the queue and the   *)
(* registry list are abstract here (their own linearizability is C17/C18,  *)
(* MSQueue.tla / RegList.tla).                                             *)
(*                                                                         *)
(* Participants run scripted programs (Prog) of API calls; deferred        *)
(* functions may themselves issue calls (TaskProg) - they run inside the   *)
(* collection phase of whichever participant pops their bag.               *)
(*                                                                         *)
(* Fix : repairs in force ("repin_sole")    Mut : seeded mutations          *)
(***************************************************************************)
EXTENDS Integers, FiniteSets, Sequences, TLC

CONSTANTS P,          \* participants
          Prog,       \* [P -> Seq(call)], call \in {"pin","unpin","defer","flush","react","advance","hdrop"}
          TaskProg,   \* [1..NT -> Seq(call)] : calls issued by deferred function k when it runs
          NT, Cap, MaxEp, Expire, Trials, Fix, Mut,
          Loop        \* participants whose program starts over when it ends (surviving threads that keep going)

Task == 1..NT
VARIABLES gep,                       \* Global.epoch
          lep, lpin,                 \* Local.epoch : value and pinned bit
          gc, hc, coll, must,        \* guard_count, handle_count, collecting, must_collect
          bag, queue,                \* local bags, global queue of sealed bags [ep, ts]
          alive,                     \* participant still linked in the registry
          pc, ret, reg, ip, tctx,    \* control: label, return stack, locals, program index, task context
          ug, inst, act, dep, st, ran \* ghost: user guards, critical-section instance, active-at-defer, epoch at deferral, task state
vars == <<gep, lep, lpin, gc, hc, coll, must, bag, queue, alive, pc, ret, reg, ip, tctx, ug, inst, act, dep, st, ran>>

\* gc0 is a stack: a deferred function that drops a guard of its own runs a second `unpin` inside the collection
\* phase of the first (found by trace validation: one register was overwritten and the outer call wrote back 1)
NoReg == [e |-> 0, gc0 |-> <<>>, scan |-> {}, trials |-> 0, cur |-> <<>>, sole |-> FALSE]
Init ==
  /\ gep = 0 /\ lep = [p \in P |-> 0] /\ lpin = [p \in P |-> FALSE]
  /\ gc = [p \in P |-> 0] /\ hc = [p \in P |-> 1] /\ coll = [p \in P |-> FALSE] /\ must = [p \in P |-> FALSE]
  /\ bag = [p \in P |-> <<>>] /\ queue = <<>> /\ alive = [p \in P |-> TRUE]
  /\ pc = [p \in P |-> "idle"] /\ ret = [p \in P |-> <<>>] /\ reg = [p \in P |-> NoReg]
  /\ ip = [p \in P |-> 1] /\ tctx = [p \in P |-> <<>>]
  /\ ug = [p \in P |-> 0] /\ inst = [p \in P |-> 0] /\ act = [k \in Task |-> {}] /\ dep = [k \in Task |-> 0]
  /\ st = [k \in Task |-> "new"] /\ ran = [k \in Task |-> 0]

Goto(p, l)   == pc' = [pc EXCEPT ![p] = l]
\* call a subroutine: continue at `entry`, come back to `back`
CallSub(p, entry, back) == pc' = [pc EXCEPT ![p] = entry] /\ ret' = [ret EXCEPT ![p] = <<back>> \o @]
Return(p)    == pc' = [pc EXCEPT ![p] = Head(ret[p])] /\ ret' = [ret EXCEPT ![p] = Tail(@)]
ActiveCS     == {<<q, inst[q]>> : q \in {r \in P : ug[r] > 0}}
UAll         == UNCHANGED <<gep, lep, lpin, gc, hc, coll, must, bag, queue, alive, reg, ip, tctx, ug, inst, act, dep, st, ran>>

---------------------------------------------------------------------------
\* the next call of p: from the deferred function it is running, or from its own program
InTask(p)  == tctx[p] # <<>>
CurProg(p) == IF InTask(p) THEN TaskProg[Head(tctx[p]).k] ELSE Prog[p]
CurIp(p)   == IF InTask(p) THEN Head(tctx[p]).ip ELSE ip[p]
HasCall(p) == pc[p] = "idle" /\ CurIp(p) <= Len(CurProg(p))
TheCall(p) == CurProg(p)[CurIp(p)]
Step(p)    == IF InTask(p) THEN tctx' = [tctx EXCEPT ![p] = <<[Head(@) EXCEPT !.ip = @ + 1]>> \o Tail(@)] /\ UNCHANGED ip
                           ELSE ip' = [ip EXCEPT ![p] = @ + 1] /\ UNCHANGED tctx

CallPin(p) ==      \* Guard creation
  /\ HasCall(p) /\ TheCall(p) = "pin" /\ Step(p)
  /\ CallSub(p, "pin0", "pin_done")
  /\ UNCHANGED <<gep, lep, lpin, gc, hc, coll, must, bag, queue, alive, reg, ug, inst, act, dep, st, ran>>
PinDone(p) ==      \* the guard exists: the critical section (instance) is active from here
  /\ pc[p] = "pin_done"
  /\ ug' = [ug EXCEPT ![p] = @ + 1]
  \* (a looping participant keeps one instance number, otherwise the ghost counter is unbounded;
  \*  configs with Loop # {} do not check C13)
  /\ inst' = IF ug[p] = 0 /\ p \notin Loop THEN [inst EXCEPT ![p] = @ + 1] ELSE inst
  /\ Goto(p, "idle")
  /\ UNCHANGED <<gep, lep, lpin, gc, hc, coll, must, bag, queue, alive, ret, reg, ip, tctx, act, dep, st, ran>>
CallUnpin(p) ==    \* Guard drop: the user stops relying on the guard when the call starts
  /\ HasCall(p) /\ TheCall(p) = "unpin" /\ ug[p] > 0 /\ Step(p)
  /\ ug' = [ug EXCEPT ![p] = @ - 1]
  /\ CallSub(p, "unpin0", "idle")
  /\ UNCHANGED <<gep, lep, lpin, gc, hc, coll, must, bag, queue, alive, reg, inst, act, dep, st, ran>>
CallDefer(p) ==    \* Guard::defer_unchecked -> Local::defer (internal.rs:348-357)
  /\ HasCall(p) /\ TheCall(p) = "defer" /\ gc[p] > 0 /\ Step(p)
  /\ \E k \in Task : /\ st[k] = "new" /\ \A j \in Task : st[j] = "new" => j >= k
       /\ act' = [act EXCEPT ![k] = ActiveCS] /\ dep' = [dep EXCEPT ![k] = gep]
       /\ st' = [st EXCEPT ![k] = "bag"]
       /\ reg' = [reg EXCEPT ![p].cur = <<k>>]
  /\ IF Len(bag[p]) >= Cap THEN CallSub(p, "push0", "defer_sched") ELSE Goto(p, "defer_put") /\ UNCHANGED ret
  /\ UNCHANGED <<gep, lep, lpin, gc, hc, coll, must, bag, queue, alive, ug, inst, ran>>
DeferSched(p) ==   \* schedule_collection after a full bag was pushed (internal.rs:354, 372-377)
  /\ pc[p] = "defer_sched"
  /\ must' = [must EXCEPT ![p] = TRUE]
  /\ IF coll[p] /\ ("repin_sole" \notin Fix \/ gc[p] = 1) THEN CallSub(p, "repin0", "defer_put") ELSE Goto(p, "defer_put") /\ UNCHANGED ret
  /\ UNCHANGED <<gep, lep, lpin, gc, hc, coll, bag, queue, alive, reg, ip, tctx, ug, inst, act, dep, st, ran>>
DeferPut(p) ==
  /\ pc[p] = "defer_put"
  /\ bag' = [bag EXCEPT ![p] = Append(@, Head(reg[p].cur))]
  /\ Goto(p, "idle")
  /\ UNCHANGED <<gep, lep, lpin, gc, hc, coll, must, queue, alive, ret, reg, ip, tctx, ug, inst, act, dep, st, ran>>
CallFlush(p) ==    \* Guard::flush -> Local::flush (359-377)
  /\ HasCall(p) /\ TheCall(p) = "flush" /\ gc[p] > 0 /\ Step(p)
  /\ IF bag[p] # <<>> THEN CallSub(p, "push0", "flush_sched") ELSE Goto(p, "flush_sched") /\ UNCHANGED ret
  /\ UNCHANGED <<gep, lep, lpin, gc, hc, coll, must, bag, queue, alive, reg, ug, inst, act, dep, st, ran>>
FlushSched(p) ==
  /\ pc[p] = "flush_sched"
  /\ must' = [must EXCEPT ![p] = TRUE]
  /\ IF coll[p] /\ ("repin_sole" \notin Fix \/ gc[p] = 1) THEN CallSub(p, "repin0", "idle") ELSE Goto(p, "idle") /\ UNCHANGED ret
  /\ UNCHANGED <<gep, lep, lpin, gc, hc, coll, bag, queue, alive, reg, ip, tctx, ug, inst, act, dep, st, ran>>
CallReact(p) ==    \* Guard::reactivate -> Local::repin (guard.rs:96-100, internal.rs:482-488)
  /\ HasCall(p) /\ TheCall(p) = "react" /\ ug[p] > 0 /\ Step(p)
  /\ reg' = [reg EXCEPT ![p].sole = (ug[p] = 1)]
  /\ ug' = IF ug[p] = 1 THEN [ug EXCEPT ![p] = 0] ELSE ug          \* a sole guard's critical section ends here
  /\ hc' = [hc EXCEPT ![p] = @ + 1]
  /\ CallSub(p, "unpin0", "react_pin")
  /\ UNCHANGED <<gep, lep, lpin, gc, coll, must, bag, queue, alive, inst, act, dep, st, ran>>
ReactPin(p) == /\ pc[p] = "react_pin" /\ CallSub(p, "pin0", "react_done") /\ UAll
ReactDone(p) ==
  /\ pc[p] = "react_done"
  /\ hc' = [hc EXCEPT ![p] = @ - 1]
  /\ ug' = IF reg[p].sole THEN [ug EXCEPT ![p] = 1] ELSE ug
  /\ inst' = IF reg[p].sole THEN [inst EXCEPT ![p] = @ + 1] ELSE inst
  /\ Goto(p, "idle")
  /\ UNCHANGED <<gep, lep, lpin, gc, coll, must, bag, queue, alive, ret, reg, ip, tctx, act, dep, st, ran>>
CallAdvance(p) ==  \* a direct try_advance (incr_advance every 64 deferrals, internal.rs:379-386)
  /\ HasCall(p) /\ TheCall(p) = "advance" /\ gc[p] > 0 /\ Step(p)
  /\ CallSub(p, "adv0", "idle")
  /\ UNCHANGED <<gep, lep, lpin, gc, hc, coll, must, bag, queue, alive, reg, ug, inst, act, dep, st, ran>>
CallHDrop(p) ==    \* LocalHandle::drop -> release_handle (513-524)
  /\ HasCall(p) /\ TheCall(p) = "hdrop" /\ hc[p] >= 1 /\ Step(p)
  /\ hc' = [hc EXCEPT ![p] = @ - 1]
  /\ IF gc[p] = 0 /\ hc[p] = 1 THEN CallSub(p, "fin0", "idle") ELSE Goto(p, "idle") /\ UNCHANGED ret
  /\ UNCHANGED <<gep, lep, lpin, gc, coll, must, bag, queue, alive, reg, ug, inst, act, dep, st, ran>>

---------------------------------------------------------------------------
\* Local::pin (internal.rs:390-452)
Pin0(p) ==
  /\ pc[p] = "pin0"
  /\ gc' = [gc EXCEPT ![p] = @ + 1]
  /\ IF gc[p] = 0 THEN Goto(p, "pin_read") /\ UNCHANGED ret ELSE Return(p)
  /\ UNCHANGED <<gep, lep, lpin, hc, coll, must, bag, queue, alive, reg, ip, tctx, ug, inst, act, dep, st, ran>>
PinRead(p) ==
  /\ pc[p] = "pin_read" /\ reg' = [reg EXCEPT ![p].e = gep] /\ Goto(p, "pin_pub")
  /\ UNCHANGED <<gep, lep, lpin, gc, hc, coll, must, bag, queue, alive, ret, ip, tctx, ug, inst, act, dep, st, ran>>
PinPublish(p) ==
  /\ pc[p] = "pin_pub" /\ lep' = [lep EXCEPT ![p] = reg[p].e] /\ lpin' = [lpin EXCEPT ![p] = TRUE]
  /\ Goto(p, "pin_val")
  /\ UNCHANGED <<gep, gc, hc, coll, must, bag, queue, alive, ret, reg, ip, tctx, ug, inst, act, dep, st, ran>>
PinValidate(p) ==   \* the re-validation this EBR adds to crossbeam's pin (438-441)
  /\ pc[p] = "pin_val"
  /\ IF reg[p].e = gep \/ "PinNoRevalidate" \in Mut \/ ("PinLagOne" \in Mut /\ reg[p].e + 1 = gep)
       THEN Return(p) ELSE Goto(p, "pin_reset") /\ UNCHANGED ret
  /\ UNCHANGED <<gep, lep, lpin, gc, hc, coll, must, bag, queue, alive, reg, ip, tctx, ug, inst, act, dep, st, ran>>
PinReset(p) ==
  /\ pc[p] = "pin_reset" /\ lpin' = [lpin EXCEPT ![p] = FALSE] /\ Goto(p, "pin_read")
  /\ UNCHANGED <<gep, lep, gc, hc, coll, must, bag, queue, alive, ret, reg, ip, tctx, ug, inst, act, dep, st, ran>>

\* Local::unpin (456-478)
Unpin0(p) ==
  /\ pc[p] = "unpin0"
  /\ reg' = [reg EXCEPT ![p].gc0 = <<gc[p]>> \o @]
  /\ IF (gc[p] = 1 \/ "UnpinInnerCollects" \in Mut) /\ ~coll[p]
       THEN coll' = [coll EXCEPT ![p] = TRUE] /\ Goto(p, "uc_loop")
       ELSE UNCHANGED coll /\ Goto(p, "unpin_dec")
  /\ UNCHANGED <<gep, lep, lpin, gc, hc, must, bag, queue, alive, ret, ip, tctx, ug, inst, act, dep, st, ran>>
UcLoop(p) ==
  /\ pc[p] = "uc_loop"
  /\ IF must[p]
       THEN must' = [must EXCEPT ![p] = FALSE] /\ CallSub(p, "adv0", "col_pop") /\ reg' = [reg EXCEPT ![p].trials = 0] /\ UNCHANGED coll
       ELSE coll' = [coll EXCEPT ![p] = FALSE] /\ Goto(p, "unpin_dec") /\ UNCHANGED <<must, ret, reg>>
  /\ UNCHANGED <<gep, lep, lpin, gc, hc, bag, queue, alive, ip, tctx, ug, inst, act, dep, st, ran>>
UnpinDec(p) ==     \* writes back the count read before the collection (470)
  /\ pc[p] = "unpin_dec"
  /\ gc' = [gc EXCEPT ![p] = Head(reg[p].gc0) - 1]
  /\ reg' = [reg EXCEPT ![p].gc0 = Tail(@)]
  /\ IF Head(reg[p].gc0) = 1 \/ "UnpinInnerClears" \in Mut THEN Goto(p, "unpin_store") /\ UNCHANGED ret ELSE Return(p)
  /\ UNCHANGED <<gep, lep, lpin, hc, coll, must, bag, queue, alive, ip, tctx, ug, inst, act, dep, st, ran>>
UnpinStore(p) ==
  /\ pc[p] = "unpin_store"
  /\ lpin' = [lpin EXCEPT ![p] = FALSE]
  /\ IF hc[p] = 0 THEN Goto(p, "fin0") /\ UNCHANGED ret ELSE Return(p)
  /\ UNCHANGED <<gep, lep, gc, hc, coll, must, bag, queue, alive, reg, ip, tctx, ug, inst, act, dep, st, ran>>

\* Global::collect (185-208)
ColPop(p) ==       \* try_pop_if(is_expired): pops the head only if it is >= Expire epochs old
  /\ pc[p] = "col_pop"
  /\ IF reg[p].trials < Trials /\ queue # <<>> /\ "NeverCollect" \notin Mut /\ (gep - Head(queue).ep >= Expire \/ "CollectUnexpired" \in Mut)
       THEN /\ reg' = [reg EXCEPT ![p].cur = Head(queue).ts, ![p].trials = @ + 1]
            /\ queue' = Tail(queue) /\ Goto(p, "run")
       ELSE /\ UNCHANGED <<reg, queue>> /\ Goto(p, "uc_repin")
  /\ UNCHANGED <<gep, lep, lpin, gc, hc, coll, must, bag, alive, ret, ip, tctx, ug, inst, act, dep, st, ran>>
Run(p) ==          \* Bag::drop calls every deferred function (105-112)
  /\ pc[p] = "run"
  /\ IF reg[p].cur = <<>> THEN Goto(p, "col_pop") /\ UNCHANGED <<reg, tctx, st, ran>>
     ELSE LET k == Head(reg[p].cur) IN
          /\ reg' = [reg EXCEPT ![p].cur = Tail(@)]
          /\ ran' = [ran EXCEPT ![k] = @ + 1] /\ st' = [st EXCEPT ![k] = "done"]
          /\ tctx' = [tctx EXCEPT ![p] = <<[k |-> k, ip |-> 1, saved |-> reg[p].cur]>> \o @]
          /\ Goto(p, "idle")
  /\ UNCHANGED <<gep, lep, lpin, gc, hc, coll, must, bag, queue, alive, ret, ip, ug, inst, act, dep>>
TaskEnd(p) ==      \* the deferred function returns
  /\ pc[p] = "idle" /\ InTask(p) /\ CurIp(p) > Len(CurProg(p))
  /\ reg' = [reg EXCEPT ![p].cur = Tail(Head(tctx[p]).saved)]
  /\ tctx' = [tctx EXCEPT ![p] = Tail(@)]
  /\ Goto(p, "run")
  /\ UNCHANGED <<gep, lep, lpin, gc, hc, coll, must, bag, queue, alive, ret, ip, ug, inst, act, dep, st, ran>>
UcRepin(p) ==      \* repin_without_collect after each collect (465)
  /\ pc[p] = "uc_repin" /\ CallSub(p, "repin0", "uc_loop") /\ UAll

\* Local::repin_without_collect (492-503)
Repin0(p) ==
  /\ pc[p] = "repin0" /\ reg' = [reg EXCEPT ![p].e = gep] /\ Goto(p, "repin1")
  /\ UNCHANGED <<gep, lep, lpin, gc, hc, coll, must, bag, queue, alive, ret, ip, tctx, ug, inst, act, dep, st, ran>>
Repin1(p) ==
  /\ pc[p] = "repin1" /\ lep' = [lep EXCEPT ![p] = reg[p].e] /\ Return(p)
  /\ UNCHANGED <<gep, lpin, gc, hc, coll, must, bag, queue, alive, reg, ip, tctx, ug, inst, act, dep, st, ran>>

\* Global::try_advance (219-257)
Adv0(p) ==
  /\ pc[p] = "adv0"
  /\ reg' = [reg EXCEPT ![p].e = gep, ![p].scan = {q \in P : alive[q]} \ (IF "AdvanceSkipsSelf" \in Mut THEN {p} ELSE {})]
  /\ Goto(p, "adv_scan")
  /\ UNCHANGED <<gep, lep, lpin, gc, hc, coll, must, bag, queue, alive, ret, ip, tctx, ug, inst, act, dep, st, ran>>
AdvScan(p) ==
  /\ pc[p] = "adv_scan"
  /\ IF reg[p].scan = {} THEN Goto(p, "adv_store") /\ UNCHANGED <<reg, ret>>
     ELSE \E q \in reg[p].scan :
            IF lpin[q] /\ lep[q] # reg[p].e /\ "AdvanceIgnoresPinned" \notin Mut
            THEN Return(p) /\ UNCHANGED reg
            ELSE reg' = [reg EXCEPT ![p].scan = @ \ {q}] /\ UNCHANGED <<pc, ret>>
  /\ UNCHANGED <<gep, lep, lpin, gc, hc, coll, must, bag, queue, alive, ip, tctx, ug, inst, act, dep, st, ran>>
AdvStore(p) ==
  /\ pc[p] = "adv_store" /\ reg[p].e < MaxEp
  /\ gep' = reg[p].e + (IF "AdvanceBy2" \in Mut THEN 2 ELSE 1)
  /\ Return(p)
  /\ UNCHANGED <<lep, lpin, gc, hc, coll, must, bag, queue, alive, reg, ip, tctx, ug, inst, act, dep, st, ran>>
AdvGiveUp(p) ==    \* (bounded model) the epoch bound of the config is reached
  /\ pc[p] = "adv_store" /\ reg[p].e >= MaxEp /\ Return(p) /\ UAll

\* Global::push_bag (168-175)
Push0(p) ==
  /\ pc[p] = "push0" /\ reg' = [reg EXCEPT ![p].e = IF "SealEarly" \in Mut THEN lep[p] ELSE gep] /\ Goto(p, "push1")
  /\ UNCHANGED <<gep, lep, lpin, gc, hc, coll, must, bag, queue, alive, ret, ip, tctx, ug, inst, act, dep, st, ran>>
Push1(p) ==
  /\ pc[p] = "push1"
  /\ queue' = Append(queue, [ep |-> reg[p].e, ts |-> bag[p]])
  /\ bag' = [bag EXCEPT ![p] = <<>>]
  /\ Return(p)
  /\ UNCHANGED <<gep, lep, lpin, gc, hc, coll, must, alive, reg, ip, tctx, ug, inst, act, dep, st, ran>>

\* Local::finalize (526-558): pin, hand the bag over, unpin, unlink
Fin0(p) ==
  /\ pc[p] = "fin0" /\ hc' = [hc EXCEPT ![p] = 1] /\ CallSub(p, "pin0", "fin1")
  /\ UNCHANGED <<gep, lep, lpin, gc, coll, must, bag, queue, alive, reg, ip, tctx, ug, inst, act, dep, st, ran>>
Fin1(p) ==
  /\ pc[p] = "fin1"
  /\ IF bag[p] # <<>> /\ "FinalizeDropsBag" \notin Mut THEN CallSub(p, "push0", "fin2") ELSE Goto(p, "fin2") /\ UNCHANGED ret
  /\ UAll
Fin2(p) == /\ pc[p] = "fin2" /\ CallSub(p, "unpin0", "fin3") /\ UAll
Fin3(p) ==
  /\ pc[p] = "fin3" /\ hc' = [hc EXCEPT ![p] = 0] /\ alive' = [alive EXCEPT ![p] = FALSE] /\ Return(p)
  /\ UNCHANGED <<gep, lep, lpin, gc, coll, must, bag, queue, reg, ip, tctx, ug, inst, act, dep, st, ran>>

Restart(p) ==
  /\ p \in Loop /\ pc[p] = "idle" /\ ~InTask(p) /\ ip[p] > Len(Prog[p])
  /\ ip' = [ip EXCEPT ![p] = 1]
  /\ UNCHANGED <<gep, lep, lpin, gc, hc, coll, must, bag, queue, alive, pc, ret, reg, tctx, ug, inst, act, dep, st, ran>>
PStep(p) ==
  \/ Restart(p)
  \/ CallPin(p) \/ PinDone(p) \/ CallUnpin(p) \/ CallDefer(p) \/ DeferSched(p) \/ DeferPut(p)
  \/ CallFlush(p) \/ FlushSched(p) \/ CallReact(p) \/ ReactPin(p) \/ ReactDone(p) \/ CallAdvance(p) \/ CallHDrop(p)
  \/ Pin0(p) \/ PinRead(p) \/ PinPublish(p) \/ PinValidate(p) \/ PinReset(p)
  \/ Unpin0(p) \/ UcLoop(p) \/ UnpinDec(p) \/ UnpinStore(p) \/ ColPop(p) \/ Run(p) \/ TaskEnd(p) \/ UcRepin(p)
  \/ Repin0(p) \/ Repin1(p) \/ Adv0(p) \/ AdvScan(p) \/ AdvStore(p) \/ AdvGiveUp(p) \/ Push0(p) \/ Push1(p)
  \/ Fin0(p) \/ Fin1(p) \/ Fin2(p) \/ Fin3(p)
Next == \E p \in P : PStep(p)
\* explicit idling once every program has ended, so that liveness is judged on infinite behaviours
Idle == (\A p \in P : pc[p] = "idle" /\ tctx[p] = <<>> /\ ip[p] > Len(Prog[p])) /\ UNCHANGED vars
Spec == Init /\ [][Next \/ Idle]_vars
\* a surviving participant keeps going (C15 liveness)
\* every participant that can take a step eventually does (no thread stalls for ever inside a call)
FairSpec == Spec /\ \A p \in P : WF_vars(PStep(p))

---------------------------------------------------------------------------
\* C13: a deferred function never runs while a critical section that was active at its deferral is active
C13 == \A k \in Task : ran[k] > 0 => \A c \in act[k] : ~(ug[c[1]] > 0 /\ inst[c[1]] = c[2])
\* C14: the clock moves by single steps; a participant inside a critical section sees at most one advance
Mono == [][gep' \in {gep, gep + 1}]_gep
EpochBound == \A p \in P : ug[p] > 0 => gep \in {lep[p], lep[p] + 1}
\* C15: never twice, nothing lost
Once == \A k \in Task : ran[k] <= 1
InBags(k)  == \E p \in P : \E i \in 1..Len(bag[p]) : bag[p][i] = k
InQueue(k) == \E i \in 1..Len(queue) : \E j \in 1..Len(queue[i].ts) : queue[i].ts[j] = k
Pending(k) == \E p \in P : (\E i \in 1..Len(reg[p].cur) : reg[p].cur[i] = k)
                           \/ (\E f \in 1..Len(tctx[p]) : \E i \in 1..Len(tctx[p][f].saved) : tctx[p][f].saved[i] = k)
Conserved == \A k \in Task : st[k] = "bag" => (InBags(k) \/ InQueue(k) \/ Pending(k))
Done == \A p \in P : pc[p] = "idle" /\ ~InTask(p) /\ ip[p] > Len(Prog[p])
\* Once a deferred function sits in the global queue it is eventually run by a surviving participant
\* (the model bounds the clock at MaxEp, so the promise is made for bags that can expire within it);
\* that it reaches the queue when its thread exits is LostBag.
Sealed(k) == \E i \in 1..Len(queue) : (\E j \in 1..Len(queue[i].ts) : queue[i].ts[j] = k) /\ queue[i].ep + Expire <= MaxEp
EventuallyRun == \A k \in Task : Sealed(k) ~> (ran[k] = 1)
\* C16: the pinned bit follows the live guards (outside the calls that change it)
C16 == \A p \in P : (pc[p] = "idle" /\ ~coll[p]) => (lpin[p] = (gc[p] > 0) /\ (ug[p] > 0 => gc[p] > 0))
GuardsCounted == \A p \in P : pc[p] = "idle" /\ ~InTask(p) => gc[p] = ug[p]
\* C15: a participant that has left the registry left nothing behind in its local bag
LostBag == \A p \in P : ~alive[p] => bag[p] = <<>>
TypeOK == \A p \in P : gc[p] >= 0 /\ hc[p] >= 0 /\ ug[p] >= 0
=============================================================================
