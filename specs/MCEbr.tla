------------------------------- MODULE MCEbr -------------------------------
(* Scenario programs for Ebr.tla: one per race named in the properties. *)
EXTENDS Ebr
CONSTANTS p1, p2, p3
\* a guard created inside a deferred function that runs during collection, then flushes (C13/C16, finding w)
ProgNested == (p1 :> <<"pin", "defer", "flush", "unpin", "pin", "flush", "unpin", "pin", "flush", "unpin", "pin", "flush", "unpin">>)
           @@ (p2 :> <<"pin", "flush", "unpin", "pin", "flush", "unpin", "pin", "flush", "unpin", "pin", "defer", "flush", "unpin", "pin", "flush", "unpin", "pin", "flush", "unpin", "pin", "flush", "unpin">>)
TaskNested == (1 :> <<"pin", "flush", "flush", "flush", "unpin">>) @@ (2 :> <<>>)
\* pinner vs. advancers: preemption between reading the epoch and publishing it (C13/C14)
ProgPinAdv == (p1 :> <<"pin", "defer", "unpin">>) @@ (p2 :> <<"pin", "advance", "unpin", "pin", "advance", "flush", "unpin">>) @@ (p3 :> <<"pin", "advance", "flush", "unpin", "pin", "advance", "flush", "unpin">>)
TaskNone == (1 :> <<>>) @@ (2 :> <<>>)
\* deferrer vs. collector, two advancers
ProgDefCol == (p1 :> <<"pin", "defer", "flush", "unpin", "pin", "flush", "unpin">>) @@ (p2 :> <<"pin", "defer", "flush", "unpin", "pin", "flush", "unpin", "pin", "flush", "unpin">>)
\* nested guards and reactivation on one participant, an observer advancing (C16)
ProgGuards == (p1 :> <<"pin", "pin", "react", "unpin", "react", "defer", "react", "unpin">>) @@ (p2 :> <<"pin", "advance", "flush", "unpin", "pin", "advance", "flush", "unpin">>)
\* a thread exits with garbage pending; a survivor collects (C15)
ProgExit == (p1 :> <<"pin", "defer", "defer", "unpin", "hdrop">>) @@ (p2 :> <<"pin", "flush", "unpin", "pin", "flush", "unpin", "pin", "flush", "unpin", "pin", "flush", "unpin", "pin", "flush", "unpin">>)
\* the guard outlives the handle (temporary participant of the TLS fallback, C20)
ProgGuardOutlives == (p1 :> <<"pin", "defer", "hdrop", "flush", "unpin">>) @@ (p2 :> <<"pin", "flush", "unpin", "pin", "flush", "unpin", "pin", "flush", "unpin", "pin", "flush", "unpin", "pin", "flush", "unpin">>)
\* smaller variants for the quick tier
ProgNestedQ == (p1 :> <<"pin", "defer", "flush", "unpin", "pin", "flush", "unpin", "pin", "flush", "unpin", "pin", "flush", "unpin">>)
            @@ (p2 :> <<"pin", "defer", "flush", "unpin", "pin", "flush", "unpin", "pin", "flush", "unpin">>)
TaskNestedQ == (1 :> <<"pin", "flush", "flush", "unpin">>) @@ (2 :> <<>>)
ProgPinAdvQ == (p1 :> <<"pin", "defer", "unpin">>) @@ (p2 :> <<"pin", "advance", "flush", "unpin", "pin", "advance", "unpin">>) @@ (p3 :> <<"pin", "advance", "unpin">>)
ProgExitQ == (p1 :> <<"pin", "defer", "defer", "unpin", "hdrop">>) @@ (p2 :> <<"pin", "flush", "unpin", "pin", "flush", "unpin", "pin", "flush", "unpin", "pin", "flush", "unpin", "pin", "flush", "unpin">>)
\* liveness: the survivor repeats pin/flush/unpin for ever
ProgExitLive == (p1 :> <<"pin", "defer", "defer", "unpin", "hdrop">>) @@ (p2 :> <<"pin", "flush", "unpin">>)
ProgOutlivesLive == (p1 :> <<"pin", "defer", "hdrop", "flush", "unpin">>) @@ (p2 :> <<"pin", "flush", "unpin">>)
=============================================================================
