------------------------------- MODULE MCEbr -------------------------------
(* Scenario programs for Ebr.tla: one per race named in the properties. *)
EXTENDS Ebr
CONSTANTS p1, p2, p3
\* a guard created inside a deferred function that runs during collection, then flushes (C13/C16, finding w)
ProgNested == (p1 :> <<"pin", "defer", "flush", "unpin", "pin", "flush", "unpin", "pin", "flush", "unpin", "pin", "flush", "unpin">>)
           @@ (p2 :> <<"pin", "flush", "unpin", "pin", "flush", "unpin", "pin", "flush", "unpin", "pin", "defer", "flush", "unpin", "pin", "flush", "unpin", "pin", "flush", "unpin", "pin", "flush", "unpin">>)
TaskNested == (1 :> <<"pin", "flush", "flush", "flush", "unpin">>) @@ (2 :> <<>>)
\* pinner vs. advancers: preemption between reading the epoch and publishing it (C13/C14)
ProgPinAdv == (p1 :> <<"pin", "defer", "unpin">>) @@ (p2 :> <<"pin", "advance", "unpin", "pin", "advance", "flush", "unpin">>) @@ (p3 :> <<"pin", "advance", "flush", "unpin", "pin", "advance", "flush", "unpin">>)
TaskNone == (1 :> <<>>) @@ (2 :> <<>>)
\* deferrer vs. collector, two advancers
ProgDefCol == (p1 :> <<"pin", "defer", "flush", "unpin", "pin", "flush", "unpin">>) @@ (p2 :> <<"pin", "defer", "flush", "unpin", "pin", "flush", "unpin", "pin", "flush", "unpin">>)
\* nested guards and reactivation on one participant, an observer advancing (C16)
ProgGuards == (p1 :> <<"pin", "pin", "react", "unpin", "react", "defer", "react", "unpin">>) @@ (p2 :> <<"pin", "advance", "flush", "unpin", "pin", "advance", "flush", "unpin">>)
\* a thread exits with garbage pending; a survivor collects (C15)
ProgExit == (p1 :> <<"pin", "defer", "defer", "unpin", "hdrop">>) @@ (p2 :> <<"pin", "flush", "unpin", "pin", "flush", "unpin", "pin", "flush", "unpin", "pin", "flush", "unpin", "pin", "flush", "unpin">>)
\* the guard outlives the handle (temporary participant of the TLS fallback, C20)
ProgGuardOutlives == (p1 :> <<"pin", "defer", "hdrop", "flush", "unpin">>) @@ (p2 :> <<"pin", "flush", "unpin", "pin", "flush", "unpin", "pin", "flush", "unpin", "pin", "flush", "unpin", "pin", "flush", "unpin">>)
\* smaller variants for the quick tier
ProgNestedQ == (p1 :> <<"pin", "defer", "flush", "unpin", "pin", "flush", "unpin", "pin", "flush", "unpin", "pin", "flush", "unpin">>)
            @@ (p2 :> <<"pin", "defer", "flush", "unpin", "pin", "flush", "unpin", "pin", "flush", "unpin">>)
TaskNestedQ == (1 :> <<"pin", "flush", "flush", "unpin">>) @@ (2 :> <<>>)
ProgPinAdvQ == (p1 :> <<"pin", "defer", "unpin">>) @@ (p2 :> <<"pin", "advance", "flush", "unpin", "pin", "advance", "unpin">>) @@ (p3 :> <<"pin", "advance", "unpin">>)
ProgExitQ == (p1 :> <<"pin", "defer", "defer", "unpin", "hdrop">>) @@ (p2 :> <<"pin", "flush", "unpin", "pin", "flush", "unpin", "pin", "flush", "unpin", "pin", "flush", "unpin", "pin", "flush", "unpin">>)
\* ---- refinement: Ebr.tla implements the abstract EBR that Circ.tla is written over (EbrAbs.tla)
\* A participant is abstractly pinned from the successful re-validation of its announcement (not from the
\* store that publishes a possibly stale epoch) to the store that withdraws it; a guard is in the user's hands
\* while the ghost count ug is positive; a deferred function is pending with the epoch at which defer was called.
APinned(p) == lpin[p] /\ pc[p] \notin {"pin_val", "pin_reset"}
Abs == INSTANCE EbrAbs WITH Task <- Task,
         agep <- gep,
         aep <- [p \in P |-> IF APinned(p) THEN lep[p] ELSE -1],
         afrozen <- [p \in P |-> ug[p] > 0],
         atask <- {[k |-> k, ep |-> dep[k]] : k \in {j \in Task : st[j] = "bag"}}
RefinesAbs == Abs!ASpecChk
AbsEpochBound == Abs!AEpochBound
AbsFrozenPinned == Abs!AFrozenPinned
\* liveness: the survivor repeats pin/flush/unpin for ever
ProgExitLive == (p1 :> <<"pin", "defer", "defer", "unpin", "hdrop">>) @@ (p2 :> <<"pin", "flush", "unpin">>)
ProgOutlivesLive == (p1 :> <<"pin", "defer", "hdrop", "flush", "unpin">>) @@ (p2 :> <<"pin", "flush", "unpin">>)
=============================================================================
