SPECIFICATION Spec
CONSTANTS
  p1 = p1
  p2 = p2
  p3 = p3
  P = {p1, p2}
  Prog <- ProgNestedQ
  TaskProg <- TaskNestedQ
  NT = 2
  Cap = 1
  MaxEp = 8
  Expire = 3
  Trials = 2
  Fix = {"repin_sole"}
  Mut = {}
  Loop = {}
INVARIANTS TypeOK C13 Once Conserved EpochBound AbsEpochBound AbsFrozenPinned C16 GuardsCounted
PROPERTIES Mono RefinesAbs
CHECK_DEADLOCK FALSE
