----------------------------- MODULE EbrAbsApa -----------------------------
(* The abstract EBR of EbrAbs.tla, typed for Apalache, with three participants and three task ids:
   AInv (type correctness, AEpochBound, AFrozenPinned, "a pending function was deferred in the past") is
   INDUCTIVE for an UNBOUNDED clock - checked as  Init => AInv  (length 0) and  AInv /\ Next => AInv'  (length 1
   from IndInit).  TLC checks the same invariants on EbrAbs.tla only up to MaxEp. *)
EXTENDS Integers, FiniteSets, Apalache
P == {"a", "b", "c"}
Task == {1, 2, 3}
Expire == 3
NONE == -1
VARIABLES
  \* @type: Int;
  agep,
  \* @type: Str -> Int;
  aep,
  \* @type: Str -> Bool;
  afrozen,
  \* @type: Set({k: Int, ep: Int});
  atask

Init == /\ agep \in Nat /\ aep = [p \in P |-> NONE] /\ afrozen = [p \in P |-> FALSE] /\ atask = {}

APin(p) == /\ aep[p] = NONE /\ ~afrozen[p]
           /\ aep' = [aep EXCEPT ![p] = agep]
           /\ \E f \in BOOLEAN : afrozen' = [afrozen EXCEPT ![p] = f]
           /\ UNCHANGED <<agep, atask>>
AFreeze(p) == /\ aep[p] # NONE /\ ~afrozen[p] /\ afrozen' = [afrozen EXCEPT ![p] = TRUE] /\ UNCHANGED <<agep, aep, atask>>
AThaw(p)   == /\ afrozen[p] /\ afrozen' = [afrozen EXCEPT ![p] = FALSE] /\ UNCHANGED <<agep, aep, atask>>
ARepin(p)  == /\ aep[p] # NONE /\ ~afrozen[p] /\ aep' = [aep EXCEPT ![p] = agep] /\ UNCHANGED <<agep, afrozen, atask>>
AUnpin(p)  == /\ aep[p] # NONE
              /\ aep' = [aep EXCEPT ![p] = NONE] /\ afrozen' = [afrozen EXCEPT ![p] = FALSE]
              /\ UNCHANGED <<agep, atask>>
AAdvance   == /\ \A p \in P : aep[p] # NONE => aep[p] = agep
              /\ agep' = agep + 1 /\ UNCHANGED <<aep, afrozen, atask>>
ADefer(k)  == /\ \A r \in atask : r.k # k
              /\ atask' = atask \union {[k |-> k, ep |-> agep]} /\ UNCHANGED <<agep, aep, afrozen>>
ARun(k)    == /\ \E r \in atask : r.k = k /\ agep - r.ep >= Expire /\ atask' = atask \ {r}
              /\ UNCHANGED <<agep, aep, afrozen>>
Stutter == UNCHANGED <<agep, aep, afrozen, atask>>
Next == \/ AAdvance
        \/ \E p \in P : APin(p) \/ AFreeze(p) \/ AThaw(p) \/ ARepin(p) \/ AUnpin(p)
        \/ \E k \in Task : ADefer(k) \/ ARun(k)
        \/ Stutter

TypeOK == /\ agep \in Nat
          /\ \A p \in P : aep[p] = NONE \/ aep[p] \in Nat
          /\ \A r \in atask : r.k \in Task /\ r.ep \in Nat
AEpochBound   == \A p \in P : aep[p] # NONE => (agep = aep[p] \/ agep = aep[p] + 1)
AFrozenPinned == \A p \in P : afrozen[p] => aep[p] # NONE
PastDeferral  == \A r \in atask : r.ep <= agep
AInv == TypeOK /\ AEpochBound /\ AFrozenPinned /\ PastDeferral
\* any state satisfying the invariant (unbounded clock): the inductive step starts here
IndInit == /\ agep = Gen(1)
           /\ aep = Gen(3) /\ DOMAIN aep = P
           /\ afrozen = Gen(3) /\ DOMAIN afrozen = P
           /\ atask = Gen(3)
           /\ AInv
=============================================================================
