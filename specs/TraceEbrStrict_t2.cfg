SPECIFICATION SSpec
CONSTANTS
  P = {1, 2}
  Prog <- NoProg
  TaskProg <- NoTaskProg
  NT = 64
  Cap = 64
  MaxEp = 2000000000
  Expire = 3
  Trials = 16
  Fix = {"repin_sole"}
  Mut = {}
  Loop = {}
INVARIANT Track
POSTCONDITION SAccepted
CHECK_DEADLOCK FALSE
