SPECIFICATION Spec
CONSTANTS
  Prod = {a, b}
  Cons = {c, d}
  PushesPer = 2
  PopsPer = 2
  MaxNode = 5
  Mut = {}
INVARIANTS PopOK EmptyOK PredOK NoDangling Refines
CHECK_DEADLOCK FALSE
