---------------------------- MODULE EbrAbsProof ----------------------------
(* TLAPS proof that the abstract EBR keeps announcements within one epoch of the clock (AEpochBound) and that a
   frozen announcement exists (AFrozenPinned), for ANY set of participants, any task ids and an unbounded clock.
   Checked by  tlapm --threads 8 EbrAbsProof.tla  (SMT + PTL back ends). *)
EXTENDS EbrAbs, TLAPS

ATypeOK == /\ agep \in Nat
           /\ aep \in [P -> Nat \cup {NONE}]
           /\ afrozen \in [P -> BOOLEAN]
AInv == ATypeOK /\ AEpochBound /\ AFrozenPinned

LEMMA InitInv == AInit => AInv
  BY DEF AInit, AInv, ATypeOK, AEpochBound, AFrozenPinned, NONE

LEMMA StepInv == AInv /\ [ANext]_avars => AInv'
<1> SUFFICES ASSUME AInv, [ANext]_avars PROVE AInv'
  OBVIOUS
<1> USE DEF AInv, ATypeOK, AEpochBound, AFrozenPinned, NONE
<1>1. CASE AAdvance
  BY <1>1 DEF AAdvance
<1>2. ASSUME NEW p \in P, APin(p) PROVE AInv'
  BY <1>2 DEF APin
<1>3. ASSUME NEW p \in P, AFreeze(p) PROVE AInv'
  BY <1>3 DEF AFreeze
<1>4. ASSUME NEW p \in P, AThaw(p) PROVE AInv'
  BY <1>4 DEF AThaw
<1>5. ASSUME NEW p \in P, ARepin(p) PROVE AInv'
  BY <1>5 DEF ARepin
<1>6. ASSUME NEW p \in P, AUnpin(p) PROVE AInv'
  BY <1>6 DEF AUnpin
<1>7. ASSUME NEW k \in Task, ADefer(k) PROVE AInv'
  BY <1>7 DEF ADefer
<1>8. ASSUME NEW k \in Task, ARun(k) PROVE AInv'
  BY <1>8 DEF ARun
<1>9. ASSUME NEW p \in P, NEW k \in Task, AAnnounceDefer(p, k) PROVE AInv'
  BY <1>9 DEF AAnnounceDefer
<1>10. CASE UNCHANGED avars
  BY <1>10 DEF avars
<1> QED
  BY <1>1, <1>2, <1>3, <1>4, <1>5, <1>6, <1>7, <1>8, <1>9, <1>10 DEF ANext

THEOREM Safety == ASpec => []AInv
<1>1. AInit => AInv
  BY InitInv
<1>2. AInv /\ [ANext]_avars => AInv'
  BY StepInv
<1> QED
  BY <1>1, <1>2, PTL DEF ASpec
=============================================================================
