SPECIFICATION MCSpec
CONSTANTS
  P = {a, b, c}
  Task = {1, 2}
  Expire = 3
  MaxEp = 6
CONSTRAINT Bound
INVARIANTS AEpochBound AFrozenPinned
PROPERTIES ARipeOnly
CHECK_DEADLOCK FALSE
