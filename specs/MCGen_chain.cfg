SPECIFICATION GSpec
CONSTANTS
  Thr = {1, 2}
  NObj = 3
  NCell = 1
  NWCell = 1
  Fld = {1}
  MaxTag = 0
  M = 16
  InitEp = {0}
  MaxEp = 40
  MaxOps = 20
  MaxDepth = 1024
  ExpAge = 3
  CasAge = 3
  OpsEnabled = {"new", "drop", "clone", "upgrade", "downgrade", "dropweak", "wclone", "wsnap", "wsupgrade", "counted", "load", "store", "swap", "snap", "pin", "collect"}
  Scen = "chain"
  Fix = {"pin", "inc", "mark", "stamp", "wmany", "newmany0"}
  Mut = {}
  GenDepth = 90
INVARIANT Emit
CONSTRAINT Stop
CHECK_DEADLOCK FALSE
