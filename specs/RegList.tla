---------------------------- MODULE RegList ----------------------------
(***************************************************************************)
(* C18: the participant registry, a lock-free intrusive list                *)
(* (src/ebr_impl/sync/list.rs).  insert at head (I1 load, I2 store of the  *)
(* entry's next, I3 weak CAS on head; lines 168-188), logical delete by    *)
(* fetch_or of the mark (Del; 147-149), traversal that unlinks marked      *)
(* entries and restarts/stalls when the predecessor is marked (ItLoad,     *)
(* ItStep, ItUnlink; 237-300).  Ghost: per iterator the entries present    *)
(* at its start, the entries deleted meanwhile, the entries it yielded.    *)
(***************************************************************************)
EXTENDS Integers, FiniteSets, Sequences, TLC
CONSTANTS Ent, PreIn, Iters, Mut
SkipRestart == "SkipRestart" \in Mut
StepOverMarked == "StepOverMarked" \in Mut
VARIABLES head, nxt, st, fin, ipc, ireg, pc, reg
vars == <<head, nxt, st, fin, ipc, ireg, pc, reg>>
NULL == 0
HEAD == -1                       \* "cell id" of the list head; cell id e > 0 is nxt[e]
Cell(c) == IF c = HEAD THEN [p |-> head, m |-> FALSE] ELSE nxt[c]
\* initial list: entries of PreIn linked in increasing order
RECURSIVE Chain(_, _)
Chain(S, f) == IF S = {} THEN f ELSE LET e == CHOOSE x \in S : \A y \in S : x >= y IN
                 Chain(S \ {e}, [f EXCEPT ![e] = [p |-> (IF \E y \in PreIn : y > e THEN CHOOSE y \in PreIn : y > e /\ \A z \in PreIn : z > e => z >= y ELSE NULL), m |-> FALSE]])
Init == /\ head = (IF PreIn = {} THEN NULL ELSE CHOOSE x \in PreIn : \A y \in PreIn : x <= y)
        /\ nxt = Chain(PreIn, [e \in Ent |-> [p |-> NULL, m |-> FALSE]])
        /\ st = [e \in Ent |-> IF e \in PreIn THEN "in" ELSE "out"]
        /\ fin = [e \in Ent |-> 0]
        /\ ipc = [i \in Iters |-> "idle"]
        /\ ireg = [i \in Iters |-> [pred |-> HEAD, curr |-> NULL, succ |-> [p |-> NULL, m |-> FALSE], start |-> {}, vis |-> {}, stalled |-> FALSE, gone |-> {}]]
        /\ pc = [e \in Ent |-> "idle"] /\ reg = [e \in Ent |-> NULL]
\* ---- insert (owner of entry e) ----
I1(e) == /\ st[e] = "out" /\ pc[e] = "idle" /\ reg' = [reg EXCEPT ![e] = head] /\ pc' = [pc EXCEPT ![e] = "I2"]
         /\ UNCHANGED <<head, nxt, st, fin, ipc, ireg>>
I2(e) == /\ pc[e] = "I2" /\ nxt' = [nxt EXCEPT ![e] = [p |-> reg[e], m |-> FALSE]] /\ pc' = [pc EXCEPT ![e] = "I3"]
         /\ UNCHANGED <<head, st, fin, ipc, ireg, reg>>
I3(e) == /\ pc[e] = "I3"
         /\ \/ /\ head = reg[e] /\ head' = e /\ st' = [st EXCEPT ![e] = "in"] /\ pc' = [pc EXCEPT ![e] = "idle"] /\ UNCHANGED reg
            \/ /\ reg' = [reg EXCEPT ![e] = head] /\ pc' = [pc EXCEPT ![e] = "I2"] /\ UNCHANGED <<head, st>>   \* lost race or spurious failure
         /\ UNCHANGED <<nxt, fin, ipc, ireg>>
\* ---- delete (owner marks its own entry) ----
DelLoad(e) == /\ "DeleteNotAtomic" \in Mut /\ st[e] = "in" /\ pc[e] = "idle"
              /\ reg' = [reg EXCEPT ![e] = nxt[e].p] /\ pc' = [pc EXCEPT ![e] = "D2"]
              /\ UNCHANGED <<head, nxt, st, fin, ipc, ireg>>
Del(e) == /\ st[e] = "in" /\ pc[e] = (IF "DeleteNotAtomic" \in Mut THEN "D2" ELSE "idle")
          /\ nxt' = [nxt EXCEPT ![e] = [p |-> (IF "DeleteNotAtomic" \in Mut THEN reg[e] ELSE @.p), m |-> TRUE]] /\ st' = [st EXCEPT ![e] = "del"]
          /\ pc' = [pc EXCEPT ![e] = "idle"]
          /\ ireg' = [i \in Iters |-> IF ipc[i] # "idle" THEN [ireg[i] EXCEPT !.gone = @ \cup {e}] ELSE ireg[i]]
          /\ UNCHANGED <<head, fin, ipc, reg>>
\* ---- iterate ----
ItStart(i) == /\ ipc[i] = "idle" /\ ireg[i].vis = {} /\ ~ireg[i].stalled
              /\ ireg' = [ireg EXCEPT ![i] = [@ EXCEPT !.pred = HEAD, !.curr = head, !.start = {e \in Ent : st[e] = "in"}, !.gone = {}]]
              /\ ipc' = [ipc EXCEPT ![i] = "loop"] /\ UNCHANGED <<head, nxt, st, fin, pc, reg>>
ItLoad(i) == /\ ipc[i] = "loop"
             /\ IF ireg[i].curr = NULL THEN ipc' = [ipc EXCEPT ![i] = "end"] /\ UNCHANGED ireg
                ELSE /\ ireg' = [ireg EXCEPT ![i].succ = nxt[ireg[i].curr]]
                     /\ ipc' = [ipc EXCEPT ![i] = IF nxt[ireg[i].curr].m THEN "unlink" ELSE "step"]
             /\ UNCHANGED <<head, nxt, st, fin, pc, reg>>
ItStep(i) == /\ ipc[i] = "step"
             /\ ireg' = [ireg EXCEPT ![i].pred = ireg[i].curr, ![i].curr = ireg[i].succ.p, ![i].vis = @ \cup {ireg[i].curr}]
             /\ ipc' = [ipc EXCEPT ![i] = "loop"] /\ UNCHANGED <<head, nxt, st, fin, pc, reg>>
ItUnlink(i) == /\ ipc[i] = "unlink"
               /\ LET c == ireg[i].pred  cur == ireg[i].curr  new == ireg[i].succ.p  val == Cell(c) IN
                  IF (val.p = cur /\ ~val.m) \/ "UnlinkBlindStore" \in Mut
                  THEN /\ IF c = HEAD THEN head' = new /\ UNCHANGED nxt ELSE nxt' = [nxt EXCEPT ![c] = [p |-> new, m |-> FALSE]] /\ UNCHANGED head
                       /\ fin' = [fin EXCEPT ![cur] = @ + 1]
                       /\ ireg' = [ireg EXCEPT ![i].curr = new] /\ ipc' = [ipc EXCEPT ![i] = "loop"]
                  ELSE /\ UNCHANGED <<head, nxt, fin>>
                       /\ IF val.m /\ ~SkipRestart
                            THEN /\ ireg' = [ireg EXCEPT ![i].pred = HEAD, ![i].curr = head, ![i].stalled = TRUE]
                                 /\ ipc' = [ipc EXCEPT ![i] = "end"]
                            ELSE /\ ireg' = [ireg EXCEPT ![i].curr = IF StepOverMarked THEN new ELSE val.p] /\ ipc' = [ipc EXCEPT ![i] = "loop"]
               /\ UNCHANGED <<st, pc, reg>>
Next == \/ \E e \in Ent : I1(e) \/ I2(e) \/ I3(e) \/ Del(e) \/ DelLoad(e)
        \/ \E i \in Iters : ItStart(i) \/ ItLoad(i) \/ ItStep(i) \/ ItUnlink(i)
Spec == Init /\ [][Next]_vars
\* a completed, non-stalled traversal has seen every entry present from its start to its end
Complete == \A i \in Iters : (ipc[i] = "end" /\ ~ireg[i].stalled) => (ireg[i].start \ ireg[i].gone) \subseteq ireg[i].vis
FinOnce == \A e \in Ent : fin[e] <= 1 /\ (fin[e] = 1 => st[e] = "del")
=============================================================================
