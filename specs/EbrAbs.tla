------------------------------- MODULE EbrAbs -------------------------------
(***************************************************************************)
(* The CONTRACT between the two layers of kaist-cp/circ.                   *)
(*                                                                         *)
(* Circ.tla (counts, pointers, cascade) is written over this abstract      *)
(* epoch-based reclamation; Ebr.tla (src/ebr_impl/internal.rs, one action  *)
(* per access of a shared word) implements it.  TLC checks both directions *)
(* as refinements (MCEbr.tla: Ebr => EbrAbs; MCCircAbs.tla: the EBR part   *)
(* of Circ => EbrAbs), so that what is proved about Circ.tla rests on      *)
(* exactly what Ebr.tla provides:                                          *)
(*                                                                         *)
(*  A1  the clock advances by one, and only while every announced epoch    *)
(*      equals it (hence AEpochBound: an announcement is never more than   *)
(*      one epoch behind);                                                 *)
(*  A2  an announcement a user relies on (a guard has been handed out:     *)
(*      "frozen") is neither moved nor withdrawn by anybody else;          *)
(*  A3  a deferred function runs only Expire epochs after the epoch at     *)
(*      which it was deferred.                                             *)
(***************************************************************************)
EXTENDS Integers, FiniteSets

CONSTANTS P, Task, Expire
NONE == -1

VARIABLES agep,     \* the clock
          aep,      \* [P -> announced epoch | NONE]
          afrozen,  \* [P -> BOOLEAN] a guard of p is in the user's hands
          atask     \* deferred, not yet run: set of [k, ep]
avars == <<agep, aep, afrozen, atask>>

AInit == /\ agep \in Nat /\ aep = [p \in P |-> NONE] /\ afrozen = [p \in P |-> FALSE] /\ atask = {}

\* pin: announce the CURRENT epoch (the concrete pin re-validates until this is true); the guard may be
\* handed to the user in the same step
APin(p) == /\ aep[p] = NONE /\ ~afrozen[p]
           /\ aep' = [aep EXCEPT ![p] = agep]
           /\ \E f \in BOOLEAN : afrozen' = [afrozen EXCEPT ![p] = f]
           /\ UNCHANGED <<agep, atask>>
AFreeze(p) == /\ aep[p] # NONE /\ ~afrozen[p] /\ afrozen' = [afrozen EXCEPT ![p] = TRUE] /\ UNCHANGED <<agep, aep, atask>>
AThaw(p)   == /\ afrozen[p] /\ afrozen' = [afrozen EXCEPT ![p] = FALSE] /\ UNCHANGED <<agep, aep, atask>>
\* re-announce (collection phases only: nobody relies on the old announcement)
ARepin(p)  == /\ aep[p] # NONE /\ ~afrozen[p] /\ aep' = [aep EXCEPT ![p] = agep] /\ UNCHANGED <<agep, afrozen, atask>>
\* withdraw; the owner's own last unpin may thaw in the same step
AUnpin(p)  == /\ aep[p] # NONE
              /\ aep' = [aep EXCEPT ![p] = NONE] /\ afrozen' = [afrozen EXCEPT ![p] = FALSE]
              /\ UNCHANGED <<agep, atask>>
AAdvance   == /\ \A p \in P : aep[p] # NONE => aep[p] = agep
              /\ agep' = agep + 1 /\ UNCHANGED <<aep, afrozen, atask>>
ADefer(k)  == /\ \A r \in atask : r.k # k
              /\ atask' = atask \cup {[k |-> k, ep |-> agep]} /\ UNCHANGED <<agep, aep, afrozen>>
ARun(k)    == /\ \E r \in atask : r.k = k /\ agep - r.ep >= Expire /\ atask' = atask \ {r}
              /\ UNCHANGED <<agep, aep, afrozen>>
\* sequential composition "announce (or re-announce) the current epoch, then defer", for coarse-grained
\* implementations that do both in one step (a decrement that takes its own guard only to defer; the
\* periodic re-pin of a cascade followed by its depth cut).  Ebr.tla never needs it.
AAnnounceDefer(p, k) ==
    /\ \A r \in atask : r.k # k
    /\ \/ aep[p] = NONE /\ ~afrozen[p] /\ \E f \in BOOLEAN : afrozen' = [afrozen EXCEPT ![p] = f]
       \/ aep[p] # NONE /\ ~afrozen[p] /\ UNCHANGED afrozen
    /\ aep' = [aep EXCEPT ![p] = agep]
    /\ atask' = atask \cup {[k |-> k, ep |-> agep]}
    /\ UNCHANGED agep
ANext == \/ AAdvance
         \/ \E p \in P : APin(p) \/ AFreeze(p) \/ AThaw(p) \/ ARepin(p) \/ AUnpin(p)
         \/ \E k \in Task : ADefer(k) \/ ARun(k)
         \/ \E p \in P, k \in Task : AAnnounceDefer(p, k)
ASpec == AInit /\ [][ANext]_avars

\* The same relation in a form that is cheap to CHECK on a given pair of states (no enumeration of Task):
\* used as the refinement property; equivalent to ANext whenever the task ids are in Task.
ADeferChk == \E r \in atask' : /\ r \notin atask /\ atask' = atask \cup {r} /\ r.ep = agep
                               /\ \A x \in atask : x.k # r.k
ARunChk   == \E r \in atask : atask' = atask \ {r} /\ agep - r.ep >= Expire
ANextChk == \/ AAdvance
            \/ \E p \in P : APin(p) \/ AFreeze(p) \/ AThaw(p) \/ ARepin(p) \/ AUnpin(p)
            \/ (ADeferChk \/ ARunChk) /\ UNCHANGED <<agep, aep, afrozen>>
            \/ \E p \in P : /\ ADeferChk /\ UNCHANGED agep
                             /\ \/ aep[p] = NONE /\ ~afrozen[p] /\ \E f \in BOOLEAN : afrozen' = [afrozen EXCEPT ![p] = f]
                                \/ aep[p] # NONE /\ ~afrozen[p] /\ UNCHANGED afrozen
                             /\ aep' = [aep EXCEPT ![p] = agep]
ASpecChk == AInit /\ [][ANextChk]_avars

\* consequences (checked on the abstract spec itself by MC_Abs.cfg, and inherited by every refinement)
AEpochBound   == \A p \in P : aep[p] # NONE => agep \in {aep[p], aep[p] + 1}
AFrozenPinned == \A p \in P : afrozen[p] => aep[p] # NONE
ARipeOnly     == [][\A r \in atask : r \notin atask' => agep - r.ep >= Expire]_avars
=============================================================================
