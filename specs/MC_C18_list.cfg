SPECIFICATION Spec
CONSTANTS
  Ent = {1, 2, 3, 4}
  PreIn = {2, 3, 4}
  Iters = {i1, i2}
  Mut = {}
INVARIANTS Complete FinOnce
CHECK_DEADLOCK FALSE
