SPECIFICATION SSpec
CONSTANTS
  Thr = {1, 2, 3}
  NObj = 8
  NCell = 3
  NWCell = 2
  Fld = {1, 2}
  MaxTag = 7
  M = 16
  InitEp = {0}
  MaxEp = 2000000000
  MaxOps = 1000000
  MaxDepth = 1024
  ExpAge = 3
  CasAge = 3
  OpsEnabled = {"new", "new_many", "iter_next", "iter_end", "clone", "counted", "upgrade", "drop", "snap", "load", "store", "swap", "cas", "cas_tag", "downgrade", "wclone", "dropweak", "wsnap", "wsupgrade", "wload", "wstore", "wswap", "wcas", "wcas_tag", "pin", "collect", "reactivate"}
  Scen = "empty"
  Fix = {"pin", "inc", "mark", "stamp", "wmany", "newmany0"}
  Mut = {}
INVARIANT Track
POSTCONDITION SAccepted
CHECK_DEADLOCK FALSE
