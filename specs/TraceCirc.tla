----------------------------- MODULE TraceCirc -----------------------------
(***************************************************************************)
(* Trace validation of executions of the REAL crate (recorded by the       *)
(* harness under the cooperative scheduler, one line per step with the     *)
(* full projected state) against Circ.tla.                                 *)
(*                                                                         *)
(* Observation mode (this module): every line becomes one state of the     *)
(* variables of Circ.tla - count words, links, epochs and life-cycle are   *)
(* read from memory by the recorder, the ghost owner sets come from the    *)
(* controller's shadow of the calls it issued - and the property           *)
(* invariants of Circ.tla are evaluated on every such state, together with *)
(* history conditions on each completed call (C05, C08, C09, C10).         *)
(* A violated condition prints  <<"VIOL", property, scenario, line>>  and  *)
(* checking continues, so one run judges every scenario of the file.       *)
(***************************************************************************)
EXTENDS Circ, Json, IOUtils

Rec == ndJsonDeserialize(IOEnv.TRACE)
VARIABLE l

NO(r) == Len(r.obj)
LifeOf(r, o) == IF o > NO(r) THEN "free"
                ELSE IF r.obj[o].life = "popped" THEN "dead" ELSE r.obj[o].life
CntOf(r, o) == IF o > NO(r) THEN ZeroCnt
               ELSE [s |-> r.obj[o].s, w |-> r.obj[o].w, d |-> r.obj[o].d, k |-> r.obj[o].k, e |-> r.obj[o].e]
LinkOf(x) == [p |-> x.p, tag |-> x.tag, ts |-> x.ts]
LnkOf(r, loc) == IF loc[1] = "c" THEN LinkOf(r.cell[loc[2]])
                 ELSE IF loc[2] > NO(r) THEN NullLink ELSE LinkOf(r.fld[loc[2]][loc[3]])
WLnkOf(r, loc) == IF loc[1] = "c" THEN LinkOf(r.wcell[loc[2]])
                  ELSE IF loc[2] > NO(r) THEN NullLink ELSE LinkOf(r.wfld[loc[2]])
ModeOf(x) == IF x.col THEN "col" ELSE IF ~x.pin THEN "out" ELSE IF x.user THEN "in" ELSE "tmp"
CountOf(a, o) == IF o > Len(a) THEN 0 ELSE a[o]
TaskSet(r) == LET S == {[k |-> r.tasks[i].k, o |-> r.tasks[i].o, ep |-> r.tasks[i].ep] : i \in 1..Len(r.tasks)}
              IN {[k |-> x.k, o |-> x.o, ep |-> x.ep,
                   n |-> Cardinality({i \in 1..Len(r.tasks) : r.tasks[i].k = x.k /\ r.tasks[i].o = x.o /\ r.tasks[i].ep = x.ep})] : x \in S}

Obs(r) ==
  /\ gep = r.gep
  /\ mode = [t \in Thr |-> ModeOf(r.thr[t])]
  /\ lep = [t \in Thr |-> r.thr[t].lep]
  /\ cnt = [o \in Obj |-> CntOf(r, o)]
  /\ life = [o \in Obj |-> LifeOf(r, o)]
  /\ lnk = [loc \in SLoc |-> LnkOf(r, loc)]
  /\ wlnk = [loc \in WLoc |-> WLnkOf(r, loc)]
  /\ tasks = TaskSet(r)
  /\ pc = [t \in Thr |-> "idle"] /\ reg = [t \in Thr |-> NoReg] /\ cret = [t \in Thr |-> "idle"]
  /\ rc = [t \in Thr |-> [o \in Obj |-> CountOf(r.own[t].rc, o)]]
  /\ wk = [t \in Thr |-> [o \in Obj |-> CountOf(r.own[t].wk, o)]]
  /\ it = [t \in Thr |-> [o \in Obj |-> CountOf(r.own[t].it, o)]]
  /\ sn = [t \in Thr |-> {o \in Obj : CountOf(r.own[t].sn, o) > 0}]
  /\ ws = [t \in Thr |-> {o \in Obj : CountOf(r.own[t].ws, o) > 0}]
  /\ nops = [t \in Thr |-> 0]

ObsP(r) ==   \* the same, for the primed variables
  /\ gep' = r.gep
  /\ mode' = [t \in Thr |-> ModeOf(r.thr[t])]
  /\ lep' = [t \in Thr |-> r.thr[t].lep]
  /\ cnt' = [o \in Obj |-> CntOf(r, o)]
  /\ life' = [o \in Obj |-> LifeOf(r, o)]
  /\ lnk' = [loc \in SLoc |-> LnkOf(r, loc)]
  /\ wlnk' = [loc \in WLoc |-> WLnkOf(r, loc)]
  /\ tasks' = TaskSet(r)
  /\ pc' = [t \in Thr |-> "idle"] /\ reg' = [t \in Thr |-> NoReg] /\ cret' = [t \in Thr |-> "idle"]
  /\ rc' = [t \in Thr |-> [o \in Obj |-> CountOf(r.own[t].rc, o)]]
  /\ wk' = [t \in Thr |-> [o \in Obj |-> CountOf(r.own[t].wk, o)]]
  /\ it' = [t \in Thr |-> [o \in Obj |-> CountOf(r.own[t].it, o)]]
  /\ sn' = [t \in Thr |-> {o \in Obj : CountOf(r.own[t].sn, o) > 0}]
  /\ ws' = [t \in Thr |-> {o \in Obj : CountOf(r.own[t].ws, o) > 0}]
  /\ nops' = [t \in Thr |-> 0]

TInit == l = 1 /\ Obs(Rec[1])
TNext == l < Len(Rec) /\ l' = l + 1 /\ ObsP(Rec[l + 1])
TSpec == TInit /\ [][TNext]_<<vars, l>>

---------------------------------------------------------------------------
\* conditions on the current line r (and the previous one, q, of the same scenario)
R == Rec[l]
HasPrev == l > 1 /\ Rec[l - 1].sc = R.sc
Q == Rec[l - 1]
Done(op) == "ret" \in DOMAIN R /\ R.ret.op = op
Same(a, b) == a.p = b.o /\ a.tag = b.tag          \* link content vs handle: pointer and user tag
LocContent(r, loc) == IF loc.k = "c" THEN LinkOf(r.cell[loc.o]) ELSE LinkOf(r.fld[loc.o][loc.f])
WLocContent(r, loc) == IF loc.k = "c" THEN LinkOf(r.wcell[loc.o]) ELSE LinkOf(r.wfld[loc.o])
Out(i) == R.ret.outs[i]
\* a timestamp is read while pinned and published later: it is the current epoch or its predecessor
StampOk(x) == IF x.p = 0 THEN TRUE ELSE x.ts \in {R.gep % M, (R.gep + M - 1) % M}

\* C04/C03: each life-cycle event at most once and in order; no write into a freed block
ObsOnce == \A o \in 1..NO(R) : R.obj[o].npop <= 1 /\ R.obj[o].ndrop <= 1 /\ R.obj[o].nfree <= 1 /\ R.obj[o].ord
ObsNoUAF == \A o \in 1..NO(R) : ~R.obj[o].uaf
\* C04: at the end of a scenario every handle was released and collection ran to quiescence
ObsNoLeak == R.k = "fin" => (R.what = "quiescent" /\ \A o \in 1..NO(R) : R.obj[o].life = "gone")
\* life only moves forward
ObsMono == HasPrev => \A o \in 1..NO(Q) : (Q.obj[o].life = "gone" => R.obj[o].life = "gone")
                                         /\ (Q.obj[o].life \in {"dead", "popped"} => R.obj[o].life # "live")
\* C05: upgrade fails only if the flag is set by now; succeeds only if it was clear when the call began
IsUp == Done("upgrade") \/ Done("wsupgrade")
ObsUpgrade == IsUp /\ R.ret.tgt # 0 =>
                /\ (~R.ret.ok => R.obj[R.ret.tgt].d)
                /\ (R.ret.d0 => ~R.ret.ok)
                /\ (R.ret.ok => R.ret.nout = 1 /\ Out(1).o = R.ret.tgt)
                \* a success is linearized before destruction begins, and then keeps it from beginning
                /\ (R.ret.ok => ~R.obj[R.ret.tgt].d /\ R.obj[R.ret.tgt].life = "live")
ObsUpgradeNull == IsUp /\ R.ret.tgt = 0 => R.ret.ok /\ Out(1).o = 0
\* C05: the flag is stable and set only at count zero
ObsFlag == HasPrev => \A o \in 1..NO(Q) :
             /\ (Q.obj[o].d /\ Q.obj[o].life # "gone") => R.obj[o].d
             /\ (~Q.obj[o].d /\ R.obj[o].d) => Q.obj[o].s = 0

\* C08: the completing step of swap / compare_exchange(_weak) / compare_exchange_tag is its only
\* access of the cell, so the previous line shows the content it acted on
IsCas == Done("cas") \/ Done("cas_weak")
ObsCas == (IsCas /\ HasPrev) =>
            LET before == LocContent(Q, R.ret.loc)  after == LocContent(R, R.ret.loc) IN
            IF R.ret.ok
            THEN /\ Same(before, R.ret.exp)
                 /\ Same(after, R.ret.des) /\ StampOk(after)
                 /\ R.ret.nout = 1 /\ Out(1).k = "r" /\ Out(1).o = before.p /\ Out(1).tag = before.tag
            ELSE /\ ~Same(before, R.ret.exp)
                 /\ after = before
                 /\ R.ret.nout = 2 /\ Out(1).o = R.ret.des.o /\ Out(1).tag = R.ret.des.tag
                 /\ Out(2).o = before.p /\ Out(2).tag = before.tag
ObsCasTag == (Done("cas_tag") /\ HasPrev) =>
            LET before == LocContent(Q, R.ret.loc)  after == LocContent(R, R.ret.loc) IN
            IF R.ret.ok
            THEN /\ Same(before, R.ret.exp)
                 /\ after.p = before.p /\ after.tag = R.ret.ntag
                 /\ Out(1).o = before.p /\ Out(1).tag = before.tag
            ELSE /\ ~Same(before, R.ret.exp) /\ after = before
                 /\ Out(1).o = before.p /\ Out(1).tag = before.tag
                 /\ R.ret.xtag = R.ret.ntag
ObsSwap == (Done("swap") /\ HasPrev) =>
            LET before == LocContent(Q, R.ret.loc)  after == LocContent(R, R.ret.loc) IN
            /\ Same(after, R.ret.des)      \* swap takes no guard: its timestamp may be older
            /\ Out(1).o = before.p /\ Out(1).tag = before.tag
ObsLoad == (Done("load") /\ HasPrev) =>
            LET before == LocContent(Q, R.ret.loc) IN Out(1).o = before.p /\ Out(1).tag = before.tag
\* every write into an AtomicRc by store/swap/CAS carries the current epoch as timestamp (C02 mechanism)
\* C09: the same for AtomicWeak, equality judged by pointer and tag only
IsWCas == Done("wcas") \/ Done("wcas_weak")
ObsWCas == (IsWCas /\ HasPrev) =>
            LET before == WLocContent(Q, R.ret.loc)  after == WLocContent(R, R.ret.loc) IN
            IF R.ret.ok
            THEN /\ Same(before, R.ret.exp) /\ Same(after, R.ret.des)
                 /\ R.ret.nout = 1 /\ Out(1).k = "w" /\ Out(1).o = before.p /\ Out(1).tag = before.tag
            ELSE /\ ~Same(before, R.ret.exp) /\ after = before
                 /\ R.ret.nout = 2 /\ Out(1).o = R.ret.des.o /\ Out(1).tag = R.ret.des.tag
                 /\ Out(2).o = before.p /\ Out(2).tag = before.tag
ObsWCasTag == (Done("wcas_tag") /\ HasPrev) =>
            LET before == WLocContent(Q, R.ret.loc)  after == WLocContent(R, R.ret.loc) IN
            IF R.ret.ok
            THEN /\ Same(before, R.ret.exp) /\ after.p = before.p /\ after.tag = R.ret.ntag
                 /\ Out(1).o = before.p /\ Out(1).tag = before.tag
            ELSE /\ ~Same(before, R.ret.exp) /\ after = before
                 /\ Out(1).o = before.p /\ Out(1).tag = before.tag
ObsWSwap == (Done("wswap") /\ HasPrev) =>
            LET before == WLocContent(Q, R.ret.loc)  after == WLocContent(R, R.ret.loc) IN
            /\ Same(after, R.ret.des) /\ Out(1).o = before.p /\ Out(1).tag = before.tag
ObsWLoad == (Done("wload") /\ HasPrev) =>
            LET before == WLocContent(Q, R.ret.loc) IN Out(1).o = before.p /\ Out(1).tag = before.tag
\* C10: weak_many returns handles to the receiver
ObsWeakMany == Done("weak_many") => \A i \in 1..R.ret.nout : Out(i).o = R.ret.tgt
\* conformance (not a verdict): between calls the count word is exactly owners + links (+ one token that a
\* pending try_destruct owes), and a try_destruct is pending iff the count is zero or a token exists
ObsWF == (\A t \in Thr : ~R.thr[t].busy) => WF
\* no panic inside the library
ObsNoPanic == ~Done("panic") /\ R.k # "abort"

V(name, ok) == ok \/ PrintT(<<"VIOL", name, R.sc, l>>)
Report ==
  /\ V("C01", C01) /\ V("C01Link", C01Link) /\ V("C02", C02) /\ V("C03", C03) /\ V("EpochBound", EpochBound)
  /\ V("FlagFirst", FlagFirst) /\ V("TypeOK", TypeOK)
  /\ V("ObsOnce", ObsOnce) /\ V("ObsNoUAF", ObsNoUAF) /\ V("ObsNoLeak", ObsNoLeak) /\ V("ObsMono", ObsMono)
  /\ V("ObsUpgrade", ObsUpgrade) /\ V("ObsUpgradeNull", ObsUpgradeNull) /\ V("ObsFlag", ObsFlag)
  /\ V("ObsCas", ObsCas) /\ V("ObsCasTag", ObsCasTag) /\ V("ObsSwap", ObsSwap) /\ V("ObsLoad", ObsLoad)
  /\ V("ObsWCas", ObsWCas) /\ V("ObsWCasTag", ObsWCasTag) /\ V("ObsWSwap", ObsWSwap) /\ V("ObsWLoad", ObsWLoad)
  /\ V("ObsWeakMany", ObsWeakMany) /\ V("ObsNoPanic", ObsNoPanic) /\ V("ObsWF", ObsWF)
Accepted == (TLCGet("stats").diameter = Len(Rec) /\ PrintT(<<"ACCEPTED", Len(Rec)>>))
            \/ PrintT(<<"REJECTED", TLCGet("stats").diameter, Len(Rec)>>)
=============================================================================
