SPECIFICATION Spec
CONSTANTS
  Thr = {t1, t2}
  NObj = 2
  NCell = 1
  NWCell = 1
  Fld = {1}
  MaxTag = 1
  M = 16
  InitEp = {0}
  MaxEp = 1
  MaxOps = 3
  MaxDepth = 3
  ExpAge = 3
  CasAge = 3
  OpsEnabled = {"load","cas","swap","pin","drop"}
  Scen = "chain"
  Fix = {"pin", "inc", "mark", "stamp", "wmany", "newmany0"}
  Mut = {}
INVARIANTS TypeOK C01 C01Link C02 C03 Once NoUnderflow EpochBound DepthBound FlagFirst
CHECK_DEADLOCK FALSE
