----------------------------- MODULE MCCircAbs -----------------------------
(* The EBR that Circ.tla is written over IS the abstract EBR of EbrAbs.tla: refinement checked by TLC.      *)
(* Together with MCEbr!RefinesAbs (Ebr.tla => EbrAbs) this ties the two layers: every assumption Circ.tla   *)
(* makes about epochs, announcements and deferred functions is one that Ebr.tla is checked to provide.     *)
EXTENDS Circ
TaskIds == {"destruct", "dealloc"} \X Obj \X (0..MaxEp) \X (1..8)
Abs == INSTANCE EbrAbs WITH P <- Thr, Task <- TaskIds, Expire <- ExpAge,
         agep <- gep,
         aep <- [t \in Thr |-> IF Pinned(t) THEN lep[t] ELSE -1],
         afrozen <- [t \in Thr |-> mode[t] \in {"in", "tmp"}],
         atask <- UNION {{[k |-> <<r.k, r.o, r.ep, i>>, ep |-> r.ep] : i \in 1..r.n} : r \in tasks}
RefinesAbs == Abs!ASpecChk
AbsEpochBound == Abs!AEpochBound
AbsFrozenPinned == Abs!AFrozenPinned
=============================================================================
