SPECIFICATION FairSpec
CONSTANTS
  p1 = p1
  p2 = p2
  p3 = p3
  P = {p1, p2}
  Prog <- ProgExitQ
  TaskProg <- TaskNone
  NT = 2
  Cap = 2
  MaxEp = 6
  Expire = 3
  Trials = 2
  Fix = {"repin_sole"}
  Mut = {}
INVARIANTS TypeOK C13 Once Conserved
PROPERTIES Mono EventuallyRun
CHECK_DEADLOCK FALSE
