SPECIFICATION SSpec
CONSTANTS
  Ent = {1, 2, 3, 4, 5, 6, 7, 8, 9, 10, 11, 12, 13, 14, 15, 16, 17, 18, 19, 20, 21, 22, 23, 24}
  PreIn = {}
  Iters = {1, 2, 3}
  Mut = {}
INVARIANT Track
POSTCONDITION SAccepted
CHECK_DEADLOCK FALSE
