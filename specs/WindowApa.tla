----------------------------- MODULE WindowApa -----------------------------
(* C12, second half, for EVERY current epoch (unbounded): the modular comparison of
   dispose_general_node never classifies a stamp as old enough when its true age is below 3,
   and classifies every age in the unambiguous window 3..13 as old enough.
   Same definitions as Bits.tla (Md_trans with Rust's truncating %), typed for Apalache. *)
EXTENDS Integers
VARIABLES
  \* @type: Int;
  cur,
  \* @type: Int;
  age
MW == 16
\* @type: (Int, Int) => Int;
TruncRem(a, n) == IF a >= 0 THEN a % n ELSE -((-a) % n)
\* @type: (Int, Int) => Int;
Md_trans(max, val) == TruncRem(val - (max + 1), MW)
\* @type: (Int, Int) => Bool;
CascadeOld(stamp, c) == Md_trans(c + 1, stamp) <= Md_trans(c + 1, c - 3)
\* @type: (Int, Int) => Int;
StampOf(c, a) == (c - a) % MW
Init == cur \in Nat /\ age \in Nat /\ age <= cur
Next == UNCHANGED <<cur, age>>
WindowLaw ==
  /\ (CascadeOld(StampOf(cur, age), cur) => age >= 3)
  /\ ((age >= 3 /\ age <= MW - 3) => CascadeOld(StampOf(cur, age), cur))
\* beyond one wrap the test may err, but only towards "too recent" for ages that are not congruent to the window
NeverYoung == age < 3 => ~CascadeOld(StampOf(cur, age), cur)
=============================================================================
