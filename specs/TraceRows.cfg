SPECIFICATION TSpec
CONSTANTS
  MaxDepth = 1024
  C0 = 16
  C1 = 9
  Seg = 1024
INVARIANT Report
POSTCONDITION Accepted
CHECK_DEADLOCK FALSE
