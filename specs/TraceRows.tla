------------------------------ MODULE TraceRows ------------------------------
(***************************************************************************)
(* Whole-process observations of the real crate (one child process per     *)
(* case), judged against the bounds the specifications establish:          *)
(*  C07  recursion depth never exceeds MaxDepth (DepthBound of Circ.tla),  *)
(*       every node reclaimed, the process survives on the listed stacks   *)
(*  C06  epoch advances until the last destructor <= C0 + C1*ceil(n/1024)  *)
(*       (shape of the bound: eager-driver configs of Circ.tla), held      *)
(*       nodes and their suffix survive, nothing destructed twice          *)
(*  C15  every closure shape runs exactly once with intact data after its  *)
(*       thread exited (Once / EventuallyRun / Conserved of Ebr.tla)       *)
(*  C20  calls from late thread-local destructors neither panic nor hang,  *)
(*       and the garbage of the dead thread is reclaimed (Ebr.tla:         *)
(*       ProgGuardOutlives - the temporary participant's guard outlives    *)
(*       its handle)                                                       *)
(***************************************************************************)
EXTENDS Integers, Sequences, TLC, Json, IOUtils
CONSTANTS MaxDepth, C0, C1, Seg
Rec == ndJsonDeserialize(IOEnv.TRACE)
VARIABLE l
TInit == l = 1
TNext == l < Len(Rec) /\ l' = l + 1
TSpec == TInit /\ [][TNext]_l
R == Rec[l]
Is(f) == R.fn = f
Ok == R.status = "ok"
RowC07 == Is("c07") => /\ Ok /\ R.out.drops = R.out.expected /\ R.out.maxdepth <= MaxDepth
LatencyBound(n) == C0 + C1 * ((n + Seg - 1) \div Seg)
RowC06 == Is("c06") => /\ Ok /\ R.out.destructed = R.out.expected /\ R.out.over = 0 /\ R.out.held_alive = 1
                       /\ R.out.advances <= LatencyBound(R.out.nodes)
RowShape == Is("shapes") => /\ Ok /\ \A i \in 1..Len(R.out.ran) : R.out.ran[i] = 1 /\ R.out.bad[i] = 0
RowC20 == Is("c20") => /\ Ok /\ R.out.joined = 1 /\ R.out.drops = R.out.expected
                       /\ R.out.reader_ok = 1          \* what a late destructor unlinked outlived a reader's critical section
                       /\ R.out.watched_dropped = 1    \* and was reclaimed exactly once afterwards
                       /\ R.out.late_ok = 1            \* what a late destructor reads under its own (reactivated) guard outlives that guard
\* C04 on free-running threads (races inside code that has no scheduling point): at quiescence every object
\* was popped, dropped and freed exactly once, in that order, and no freed block was written
RowFree == Is("free") => /\ Ok /\ R.out.max_npop <= 1 /\ R.out.max_ndrop <= 1 /\ R.out.max_nfree <= 1
                        /\ R.out.order_ok = 1 /\ R.out.uaf = 0 /\ R.out.leaked = 0
\* C18 on free-running threads: every list element is handed to finalize exactly once (RegList.tla: Once)
RowListFree == Is("listfree") => /\ Ok /\ R.out.max_fin = 1 /\ R.out.min_fin = 1 /\ R.out.bad_trials = 0
V(name, ok) == ok \/ PrintT(<<"VIOL", name, 0, l>>)
Report == V("RowListFree", RowListFree) /\ V("RowFree", RowFree) /\ V("RowC07", RowC07) /\ V("RowC06", RowC06) /\ V("RowShape", RowShape) /\ V("RowC20", RowC20)
Accepted == (TLCGet("stats").diameter = Len(Rec) /\ PrintT(<<"ACCEPTED", Len(Rec)>>))
            \/ PrintT(<<"REJECTED", TLCGet("stats").diameter, Len(Rec)>>)
=============================================================================
