SPECIFICATION GSpec
CONSTANTS
  Thr = {1, 2}
  NObj = 4
  NCell = 2
  NWCell = 1
  Fld = {1}
  MaxTag = 0
  M = 16
  InitEp = {0}
  MaxEp = 40
  MaxOps = 14
  MaxDepth = 1024
  ExpAge = 3
  CasAge = 3
  OpsEnabled = {"new", "new_many", "iter_next", "iter_end", "clone", "counted", "upgrade", "drop", "snap", "load", "store", "swap", "cas", "downgrade", "wclone", "dropweak", "wsnap", "wsupgrade", "wload", "wstore", "wswap", "wcas", "pin", "collect", "reactivate"}
  Scen = "empty"
  Fix = {"pin", "inc", "mark", "stamp", "wmany", "newmany0"}
  Mut = {}
  GenDepth = 70
INVARIANT Emit
CONSTRAINT Stop
CHECK_DEADLOCK FALSE
