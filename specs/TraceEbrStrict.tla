--------------------------- MODULE TraceEbrStrict ---------------------------
(***************************************************************************)
(* Step-relation trace validation for the EBR layer: every recorded line   *)
(* of a real execution of src/ebr_impl (private collector, cooperative     *)
(* scheduler with preemption at every EBR site) must be explained by an    *)
(* ACTION of Ebr.tla.                                                      *)
(*                                                                         *)
(*  - Prog is the trace itself: Prog[p] is the sequence of calls thread p  *)
(*    starts in the file, so that Ebr.tla's own Call* actions consume the  *)
(*    `start` lines (ip[p] counts them);                                   *)
(*  - hook sites and pc labels of Ebr.tla correspond one to one (SitePc);  *)
(*    a `step` line is one labelled action of that thread or a stutter;    *)
(*  - labels without a site (pin0, pin_done, unpin0, uc_loop, unpin_dec,   *)
(*    run, defer_put, ..., the end of a deferred function) are SILENT and  *)
(*    fire while a thread's control point or the observable state          *)
(*    disagrees with the current line;                                     *)
(*  - bound to the line: clock, announced epochs and pinned bits, guard    *)
(*    and handle counts, `collecting`, registry membership, length of each *)
(*    local bag, the sealing epochs of the global queue, state and run     *)
(*    count of every deferred function; inferred by TLC: registers,        *)
(*    must_collect, ghost guards and instances, the contents of the bags;  *)
(*  - scenarios whose deferred functions issue calls of their own, and     *)
(*    calls outside the model's vocabulary (a direct collect, a            *)
(*    reactivate_after whose closure drops a sibling guard), RESYNC.       *)
(***************************************************************************)
EXTENDS TraceEbr, Functions
VARIABLE loose   \* the rest of the scenario is only observed (see Trusted): set by the first trusted line, cleared by `reset`

\* Prog/TaskProg are not used: the calls come from the trace (TCall below repeats the bodies of Ebr.tla's Call*
\* actions without the program counter of the scripted client)
NoProg == [p \in P |-> <<>>]
NoTaskProg == [k \in 1..NT |-> <<>>]

StOf(r, k) == IF k > NTk(r) THEN "new" ELSE r.task[k].st
RanOf(r, k) == IF k > NTk(r) THEN 0 ELSE r.task[k].ran
SitePc(s) ==
  CASE s = 0 -> {"idle"}
    [] s = 100 -> {"pin_read"} [] s = 101 -> {"pin_pub"} [] s = 102 -> {"pin_val"} [] s = 103 -> {"pin_reset"}
    [] s = 110 -> {"adv0"} [] s = 111 -> {"adv_scan"} [] s = 112 -> {"adv_store"}
    [] s = 120 -> {"push0"} [] s = 121 -> {"push1"} [] s = 122 -> {"col_pop"}
    [] s = 123 -> {"repin0"} [] s = 124 -> {"repin1"} [] s = 125 -> {"unpin_store"} [] s = 126 -> {"fin0"}
    [] OTHER -> {"?"}
Supported == {"pin", "unpin", "react", "react_after", "react_after_panic", "flush", "defer", "advance", "hdrop"}

ObsEq(r) ==
  /\ gep = r.gep
  /\ \A p \in P : /\ lpin[p] = r.thr[p].pin /\ (lpin[p] => lep[p] = r.thr[p].lep)
                  /\ gc[p] = r.thr[p].gc /\ hc[p] = r.thr[p].hc /\ coll[p] = r.thr[p].col
                  /\ alive[p] = ~r.thr[p].gone
                  \* (push_bag takes the local bag before its first site; the model empties it at the enqueue)
                  \* (the real bags also hold the collector's own garbage - retired queue nodes - which the model
                  \*  abstracts: the model's bag is a part of the real one)
                  /\ (pc[p] \in {"push0", "push1"} /\ r.thr[p].bag = 0) \/ Len(bag[p]) <= r.thr[p].bag
  /\ Len(queue) <= Len(r.queue) /\ \A i \in 1..Len(queue) : \E j \in 1..Len(r.queue) : queue[i].ep = r.queue[j]
  /\ \A k \in Task : st[k] = StOf(r, k) /\ ran[k] = RanOf(r, k)
PcOk(r, p) == pc[p] = "ext" \/ pc[p] \in SitePc(r.thr[p].site)
Settled(r) == (\A p \in P : PcOk(r, p) /\ (pc[p] = "idle" => ~InTask(p))) /\ ObsEq(r)

IsIdle(p) == pc[p] = "idle" /\ ~InTask(p)
\* the body of call n of thread p; `nested`: issued by the deferred function p is running (no `start` line of its
\* own: such calls are silent alternatives to the function's end)
CallBody(p, n, nested) ==
  /\ pc[p] = "idle" /\ InTask(p) = nested /\ UNCHANGED <<ip, tctx>>
  /\ CASE n = "pin" ->
             /\ CallSub(p, "pin0", "pin_done")
             /\ UNCHANGED <<gep, lep, lpin, gc, hc, coll, must, bag, queue, alive, reg, ug, inst, act, dep, st, ran>>
       [] n = "unpin" ->
             /\ ug[p] > 0 /\ ug' = [ug EXCEPT ![p] = @ - 1]
             /\ CallSub(p, "unpin0", "idle")
             /\ UNCHANGED <<gep, lep, lpin, gc, hc, coll, must, bag, queue, alive, reg, inst, act, dep, st, ran>>
       [] n = "defer" ->
             /\ gc[p] > 0
             /\ \E k \in Task : /\ st[k] = "new" /\ \A j \in Task : st[j] = "new" => j >= k
                  /\ act' = [act EXCEPT ![k] = ActiveCS] /\ dep' = [dep EXCEPT ![k] = gep]
                  /\ st' = [st EXCEPT ![k] = "bag"]
                  /\ reg' = [reg EXCEPT ![p].cur = <<k>>]
             /\ IF Len(bag[p]) >= Cap THEN CallSub(p, "push0", "defer_sched") ELSE Goto(p, "defer_put") /\ UNCHANGED ret
             /\ UNCHANGED <<gep, lep, lpin, gc, hc, coll, must, bag, queue, alive, ug, inst, ran>>
       [] n = "flush" ->
             /\ gc[p] > 0
             \* (the real bag may hold only the collector's own garbage - an unlinked registry entry, a retired queue
             \*  node - which the model abstracts: it is pushed all the same, as a bag without functions)
             /\ IF bag[p] # <<>> \/ Rec[l].thr[p].bag > 0 \/ (nested /\ Rec[l].thr[p].site = 120)
                  THEN CallSub(p, "push0", "flush_sched") ELSE Goto(p, "flush_sched") /\ UNCHANGED ret
             /\ UNCHANGED <<gep, lep, lpin, gc, hc, coll, must, bag, queue, alive, reg, ug, inst, act, dep, st, ran>>
       [] n \in {"react", "react_after", "react_after_panic"} ->
             /\ ug[p] > 0
             /\ reg' = [reg EXCEPT ![p].sole = (ug[p] = 1)]
             /\ ug' = IF ug[p] = 1 THEN [ug EXCEPT ![p] = 0] ELSE ug
             /\ hc' = [hc EXCEPT ![p] = @ + 1]
             /\ CallSub(p, "unpin0", "react_pin")
             /\ UNCHANGED <<gep, lep, lpin, gc, coll, must, bag, queue, alive, inst, act, dep, st, ran>>
       [] n = "advance" ->
             /\ gc[p] > 0 /\ CallSub(p, "adv0", "idle")
             /\ UNCHANGED <<gep, lep, lpin, gc, hc, coll, must, bag, queue, alive, reg, ug, inst, act, dep, st, ran>>
       [] n = "hdrop" ->
             /\ hc[p] >= 1 /\ hc' = [hc EXCEPT ![p] = @ - 1]
             /\ IF gc[p] = 0 /\ hc[p] = 1 THEN CallSub(p, "fin0", "idle") ELSE Goto(p, "idle") /\ UNCHANGED ret
             /\ UNCHANGED <<gep, lep, lpin, gc, coll, must, bag, queue, alive, reg, ug, inst, act, dep, st, ran>>
       [] OTHER -> FALSE
TCall(p, n) == CallBody(p, n, FALSE)
\* (guards: a nested call is only tried when the line shows its effect - otherwise the silent closure would pin,
\*  unpin and defer for ever)
NCall(p) == \/ gc[p] < Rec[l].thr[p].gc /\ CallBody(p, "pin", TRUE)
            \/ gc[p] > Rec[l].thr[p].gc /\ CallBody(p, "unpin", TRUE)
            \/ CallBody(p, "flush", TRUE)
            \/ (\E k \in Task : st[k] = "new" /\ StOf(Rec[l], k) = "bag") /\ CallBody(p, "defer", TRUE)

SilentPcs == {"pin0", "pin_done", "unpin0", "uc_loop", "unpin_dec", "run", "defer_put", "defer_sched", "flush_sched",
              "react_pin", "react_done", "uc_repin", "fin1", "fin2", "fin3"}
Silent(p) == \/ PinDone(p) \/ DeferSched(p) \/ DeferPut(p) \/ FlushSched(p) \/ ReactPin(p) \/ ReactDone(p)
             \/ Pin0(p) \/ Unpin0(p) \/ UcLoop(p) \/ UnpinDec(p) \/ Run(p) \/ TaskEnd(p) \/ UcRepin(p)
             \/ Fin1(p) \/ Fin2(p) \/ Fin3(p) \/ NCall(p)
             \/ (pc[p] = "adv_scan" /\ reg[p].scan = {} /\ AdvScan(p))     \* the scan is over: no site of its own
             \* an entry whose participant has left meanwhile is unlinked by the traversal, not visited: no scan site
             \/ (pc[p] = "adv_scan" /\ \E q \in reg[p].scan : ~alive[q] /\ reg' = [reg EXCEPT ![p].scan = @ \ {q}]
                                      /\ UNCHANGED <<gep, lep, lpin, gc, hc, coll, must, bag, queue, alive, pc, ret, ip, tctx, ug, inst, act, dep, st, ran>>)
             \/ (pc[p] = "repin1" /\ reg[p].e = lep[p] /\ Repin1(p))       \* nothing to store: the code skips the store site
             \/ (pc[p] = "fin1" /\ bag[p] = <<>> /\ Rec[l].thr[p].site = 120 /\ CallSub(p, "push0", "fin2") /\ UAll)  \* finalize pushes a bag of internal garbage
Atomic(p) == \/ PinRead(p) \/ PinPublish(p) \/ PinValidate(p) \/ PinReset(p)
             \/ Adv0(p) \/ AdvScan(p) \/ AdvStore(p) \/ Push0(p) \/ Push1(p) \/ ColPop(p)
             \/ Repin0(p) \/ Repin1(p) \/ UnpinStore(p) \/ Fin0(p)

\* ---- consuming a line
\* (the finisher and some scenarios run without preemption at EBR sites, others with queue/list sites as well:
\*  only lines recorded with exactly the EBR site class are held to the step relation)
Trusted(r) == r.k \in {"fin", "abort"} \/ r.mask # 2
Skip(r) == \/ r.k = "reset" \/ Trusted(r) \/ loose
           \/ (r.k = "start" /\ r.opn \notin Supported)
           \/ (r.t # 0 /\ pc[r.t] = "ext")
Resync(r) ==
  /\ gep' = r.gep
  /\ lep' = [p \in P |-> r.thr[p].lep] /\ lpin' = [p \in P |-> r.thr[p].pin]
  /\ gc' = [p \in P |-> r.thr[p].gc] /\ hc' = [p \in P |-> r.thr[p].hc]
  /\ coll' = [p \in P |-> r.thr[p].col] /\ alive' = [p \in P |-> ~r.thr[p].gone]
  /\ ug' = [p \in P |-> r.thr[p].ug] /\ inst' = [p \in P |-> r.thr[p].inst]
  /\ act' = [k \in Task |-> IF k > NTk(r) THEN {} ELSE {<<r.task[k].act[i][1], r.task[k].act[i][2]>> : i \in 1..Len(r.task[k].act)}]
  /\ st' = [k \in Task |-> StOf(r, k)] /\ ran' = [k \in Task |-> RanOf(r, k)]
  /\ dep' = dep
  /\ IF r.k = "reset"
       THEN /\ bag' = [p \in P |-> <<>>] /\ queue' = <<>> /\ must' = [p \in P |-> FALSE]
            /\ pc' = [p \in P |-> "idle"] /\ ret' = [p \in P |-> <<>>] /\ reg' = [p \in P |-> NoReg] /\ tctx' = [p \in P |-> <<>>]
       ELSE \* what an unmodelled call did to the bags is read off the line: functions that have run are taken out,
            \* and a local bag that has become shorter than its pending functions was sealed and enqueued
            LET bagF == [p \in P |-> SelectSeq(bag[p], LAMBDA k : StOf(r, k) = "bag")]
                qF0  == [i \in 1..Len(queue) |-> [queue[i] EXCEPT !.ts = SelectSeq(@, LAMBDA k : StOf(r, k) = "bag")]]
                qF   == SelectSeq(qF0, LAMBDA b : b.ts # <<>>)
                pushed == r.t # 0 /\ Len(bagF[r.t]) > r.thr[r.t].bag
                sealed == IF Len(r.queue) > 0 THEN r.queue[Len(r.queue)] ELSE r.gep
            IN /\ bag' = IF pushed THEN [bagF EXCEPT ![r.t] = <<>>] ELSE bagF
               /\ queue' = IF pushed THEN Append(qF, [ep |-> sealed, ts |-> bagF[r.t]]) ELSE qF
            \* must_collect is not recorded: an unmodelled call may have set or cleared its thread's flag
            /\ \E b \in BOOLEAN : must' = (IF r.t = 0 THEN must ELSE [must EXCEPT ![r.t] = b])
            /\ IF r.t = 0 THEN UNCHANGED <<pc, ret, reg, tctx>>
               ELSE /\ pc' = [pc EXCEPT ![r.t] = IF r.thr[r.t].busy THEN "ext" ELSE "idle"]
                    /\ ret' = [ret EXCEPT ![r.t] = <<>>] /\ reg' = [reg EXCEPT ![r.t] = NoReg] /\ tctx' = [tctx EXCEPT ![r.t] = <<>>]
  /\ ip' = ip
Consume(r) ==
  IF Skip(r) THEN Resync(r)
  ELSE CASE r.k = "start" -> TCall(r.t, r.opn)
         [] r.k = "step" -> Atomic(r.t) \/ UNCHANGED vars
         [] OTHER -> FALSE

SInit == l = 1 /\ Obs(Rec[1]) /\ loose = FALSE /\ TLCSet(1, 1) /\ TLCSet(2, <<>>)
Ready == loose \/ Settled(Rec[l])
SNext == \/ /\ Ready /\ l < Len(Rec) /\ l' = l + 1 /\ Consume(Rec[l + 1])
            /\ loose' = IF Rec[l + 1].k = "reset" THEN FALSE ELSE (loose \/ Trusted(Rec[l + 1]))
         \/ /\ ~Ready /\ l' = l /\ UNCHANGED loose
            /\ \E p \in P : ~(PcOk(Rec[l], p) /\ pc[p] \notin SilentPcs /\ ~(pc[p] = "idle" /\ InTask(p))) /\ Silent(p)
SSpec == SInit /\ [][SNext]_<<vars, l, loose>>
Track == (Ready /\ l > TLCGet(1)) => (TLCSet(1, l) /\ TLCSet(2, <<pc, ret, reg>>))
SAccepted == (TLCGet(1) = Len(Rec) /\ PrintT(<<"STRICT-ACCEPTED", Len(Rec)>>))
             \/ PrintT(<<"STRICT-REJECTED", TLCGet(1), Len(Rec), Rec[TLCGet(1)].sc, TLCGet(2)>>)
=============================================================================
