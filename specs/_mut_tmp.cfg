SPECIFICATION Spec
CONSTANTS
  Thr = {t1, t2}
  NObj = 2
  NCell = 1
  NWCell = 1
  Fld = {1}
  MaxTag = 0
  M = 16
  InitEp = {6}
  MaxEp = 10
  MaxOps = 4
  MaxDepth = 3
  ExpAge = 3
  CasAge = 3
  OpsEnabled = {"load","store","drop","pin","collect"}
  Scen = "chain"
  Fix = {"inc", "mark", "stamp", "wmany", "newmany0"}
  Mut = {}
INVARIANTS TypeOK C01 C01Link C02 C03 Once NoUnderflow EpochBound DepthBound FlagFirst
CHECK_DEADLOCK FALSE
