SPECIFICATION TSpec
INVARIANT Report
POSTCONDITION Accepted
CHECK_DEADLOCK FALSE
