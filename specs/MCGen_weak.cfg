SPECIFICATION GSpec
CONSTANTS
  Thr = {1, 2}
  NObj = 4
  NCell = 1
  NWCell = 1
  Fld = {1}
  MaxTag = 0
  M = 16
  InitEp = {0}
  MaxEp = 40
  MaxOps = 14
  MaxDepth = 1024
  ExpAge = 3
  CasAge = 3
  OpsEnabled = {"new", "clone", "upgrade", "drop", "snap", "load", "store", "swap", "downgrade", "wclone", "dropweak", "wsnap", "wsupgrade", "wload", "wstore", "wswap", "wcas", "counted", "pin", "collect"}
  Scen = "empty"
  Fix = {"pin", "inc", "mark", "stamp", "wmany", "newmany0"}
  Mut = {}
  GenDepth = 70
INVARIANT Emit
CONSTRAINT Stop
CHECK_DEADLOCK FALSE
