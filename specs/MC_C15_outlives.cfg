SPECIFICATION FairSpec
CONSTANTS
  p1 = p1
  p2 = p2
  p3 = p3
  P = {p1, p2}
  Prog <- ProgOutlivesLive
  TaskProg <- TaskNone
  NT = 2
  Cap = 2
  MaxEp = 7
  Expire = 3
  Trials = 2
  Fix = {"repin_sole"}
  Mut = {}
  Loop = {p2}
INVARIANTS TypeOK Once Conserved LostBag
PROPERTIES Mono EventuallyRun
CHECK_DEADLOCK FALSE
