SPECIFICATION Spec
CONSTANTS
  Thr = {t1, t2}
  NObj = 1
  NCell = 1
  NWCell = 1
  Fld = {1}
  MaxTag = 0
  M = 16
  InitEp = {0}
  MaxEp = 7
  MaxOps = 2
  MaxDepth = 3
  ExpAge = 3
  CasAge = 3
  OpsEnabled = {"drop","dropweak","wclone","wsnap","pin","collect","upgrade"}
  Scen = "weak"
  Fix = {"pin", "inc", "mark", "stamp", "wmany", "newmany0"}
  Mut = {}
INVARIANTS TypeOK C01 C01Link C02 C03 Once NoUnderflow EpochBound DepthBound FlagFirst WF AbsEpochBound AbsFrozenPinned
PROPERTIES RefinesAbs
CHECK_DEADLOCK FALSE
