----------------------------- MODULE MCEbrAbs -----------------------------
EXTENDS EbrAbs
CONSTANT MaxEp
MCInit == agep = 0 /\ aep = [p \in P |-> NONE] /\ afrozen = [p \in P |-> FALSE] /\ atask = {}
MCSpec == MCInit /\ [][ANext]_avars
Bound == agep <= MaxEp
=============================================================================
