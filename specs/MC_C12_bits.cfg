SPECIFICATION BitsSpec
CONSTANTS
  W = 8
  HW = 2
  MaxCur = 0
  MaxAge = 0
  Aligns = {0, 1, 2, 3}
INVARIANTS C12Fields C11Tagged
CHECK_DEADLOCK FALSE
