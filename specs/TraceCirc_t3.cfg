SPECIFICATION TSpec
CONSTANTS
  Thr = {1, 2, 3}
  NObj = 8
  NCell = 3
  NWCell = 2
  Fld = {1, 2}
  MaxTag = 7
  M = 16
  InitEp = {0}
  MaxEp = 0
  MaxOps = 0
  MaxDepth = 1024
  ExpAge = 3
  CasAge = 3
  OpsEnabled = {}
  Scen = "empty"
  Fix = {}
  Mut = {}
INVARIANT Report
POSTCONDITION Accepted
CHECK_DEADLOCK FALSE
