----------------------------- MODULE TracePtrOrd -----------------------------
(* Rows produced by the real `==`, `partial_cmp`, `cmp`, `Hash` and `ptr_eq` of Rc and Snapshot,
   judged against PtrOrd.tla; the laws are re-checked on the OBSERVED relations. *)
EXTENDS PtrOrd, Json, IOUtils
Rec == ndJsonDeserialize(IOEnv.TRACE)
VARIABLE l
TInit == l = 1
TNext == l < Len(Rec) /\ l' = l + 1
TSpec == TInit /\ [][TNext]_l
R == Rec[l]
RowOrd == R.fn = "ord" =>
  /\ (R.eq = 1) = EqSpec(R.x, R.y) /\ (R.ne = 1) = ~EqSpec(R.x, R.y)
  /\ R.cmp = CmpSpec(R.x, R.y) /\ R.pcmp = CmpSpec(R.x, R.y)
  /\ (EqSpec(R.x, R.y) => R.heq = 1)
  /\ (R.peq = 1) = PtrEqSpec(R.x, R.y)
\* laws on the observed tables, once all rows are in
Rows(h) == {i \in 1..Len(Rec) : Rec[i].fn = "ord" /\ Rec[i].h = h}
Cell(h, i, j) == Rec[CHOOSE r \in Rows(h) : Rec[r].i = i /\ Rec[r].j = j]
ObsLaws == R.fn = "ord_end" =>
  \A h \in {"rc", "sn"} :
    LET U == 1..R.n
        Eq(a, b) == Cell(h, a, b).eq = 1
        Cmp(a, b) == Cell(h, a, b).cmp
        HEq(a, b) == Cell(h, a, b).heq = 1
    IN EqLaws(U, Eq) /\ OrdLaws(U, Eq, Cmp) /\ HashLaw(U, Eq, HEq)
V(name, ok) == ok \/ PrintT(<<"VIOL", name, 0, l>>)
Report == V("RowOrd", RowOrd) /\ V("ObsLaws", ObsLaws)
Accepted == (TLCGet("stats").diameter = Len(Rec) /\ PrintT(<<"ACCEPTED", Len(Rec)>>))
            \/ PrintT(<<"REJECTED", TLCGet("stats").diameter, Len(Rec)>>)
=============================================================================
