------------------------------ MODULE MCPtrOrd ------------------------------
(* Exhaustive check of the laws on the specified relations over a universe that contains null,
   tagged null, one object with several tags, distinct objects with equal and different contents. *)
EXTENDS PtrOrd
U == [obj : 0..3, val : {2, 5}, tag : 0..1]
Wf(x) == /\ (x.obj = 0 => x.val = 2)
         /\ (x.obj = 1 => x.val = 5) /\ (x.obj = 2 => x.val = 5) /\ (x.obj = 3 => x.val = 2)
UU == {x \in U : Wf(x)}
VARIABLES a, b, c
OInit == a \in UU /\ b \in UU /\ c \in UU
ONext == UNCHANGED <<a, b, c>>
OSpec == OInit /\ [][ONext]_<<a, b, c>>
Laws == /\ EqSpec(a, a) /\ (EqSpec(a, b) = EqSpec(b, a)) /\ ((EqSpec(a, b) /\ EqSpec(b, c)) => EqSpec(a, c))
        /\ ((CmpSpec(a, b) = 0) = EqSpec(a, b)) /\ CmpSpec(a, b) = -CmpSpec(b, a)
        /\ ((CmpSpec(a, b) <= 0 /\ CmpSpec(b, c) <= 0) => CmpSpec(a, c) <= 0)
        /\ (a.obj = 0 /\ b.obj # 0 => CmpSpec(a, b) = -1)                 \* null is distinct and smallest
        /\ (EqSpec(a, b) /\ a.obj # b.obj => a.val = b.val)               \* distinct objects, equal contents
        /\ (PtrEqSpec(a, b) => EqSpec(a, b))
=============================================================================
