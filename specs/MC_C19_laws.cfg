SPECIFICATION OSpec
INVARIANT Laws
CHECK_DEADLOCK FALSE
