------------------------------- MODULE PtrOrd -------------------------------
(***************************************************************************)
(* C19: Eq, PartialOrd, Ord and Hash of Rc and Snapshot are those of       *)
(* Option<&T> of the referent (strong.rs:665-690, 891-916); ptr_eq is      *)
(* identity plus user tag.  A pointer is abstracted to                     *)
(*    [obj (0 = null), val (contents), tag]                                *)
(* the timestamp is deliberately absent: it must not influence anything.   *)
(***************************************************************************)
EXTENDS Integers, Sequences, FiniteSets, TLC
Opt(x)        == IF x.obj = 0 THEN <<>> ELSE <<x.val>>          \* None / Some(val)
EqSpec(x, y)  == Opt(x) = Opt(y)
Sign(n)       == IF n < 0 THEN -1 ELSE IF n = 0 THEN 0 ELSE 1
CmpSpec(x, y) == IF x.obj = 0 THEN (IF y.obj = 0 THEN 0 ELSE -1)       \* None is smallest
                 ELSE IF y.obj = 0 THEN 1 ELSE Sign(x.val - y.val)
PtrEqSpec(x, y) == x.obj = y.obj /\ x.tag = y.tag
\* the laws, for a relation given as operators over a universe U
EqLaws(U, Eq(_, _)) ==
  /\ \A a \in U : Eq(a, a)
  /\ \A a, b \in U : Eq(a, b) = Eq(b, a)
  /\ \A a, b, c \in U : (Eq(a, b) /\ Eq(b, c)) => Eq(a, c)
OrdLaws(U, Eq(_, _), Cmp(_, _)) ==
  /\ \A a, b \in U : (Cmp(a, b) = 0) = Eq(a, b)
  /\ \A a, b \in U : Cmp(a, b) = -Cmp(b, a)
  /\ \A a, b, c \in U : (Cmp(a, b) <= 0 /\ Cmp(b, c) <= 0) => Cmp(a, c) <= 0
HashLaw(U, Eq(_, _), HEq(_, _)) == \A a, b \in U : Eq(a, b) => HEq(a, b)
=============================================================================
