---------------------------- MODULE TraceQStrict ----------------------------
(***************************************************************************)
(* Step-relation trace validation for the collector's Michael-Scott queue: *)
(* every recorded line of a real execution of sync/queue.rs (shim instance *)
(* under the cooperative scheduler, a scheduling point before every atomic *)
(* access) must be explained by an ACTION of MSQueue.tla.                  *)
(* Sites 140-149 and the labels L1-L5, P1, P2, P4-P6 correspond one to     *)
(* one; P7 (retiring the old sentinel) and the empty/refused return have   *)
(* no site and are silent.  Bound to the line: the values reachable from   *)
(* the head (= the abstract FIFO), the position of the tail pointer in     *)
(* that chain, the result of every completed call; registers (the loaded   *)
(* head, tail and next pointers) are inferred by TLC.                      *)
(***************************************************************************)
EXTENDS MSQueue, Json, IOUtils
Rec == ndJsonDeserialize(IOEnv.TRACE)
VARIABLE l

SitePc(s) ==
  CASE s = 0 -> {"idle"}
    [] s = 140 -> {"L1"} [] s = 141 -> {"L2"} [] s = 142 -> {"L3"} [] s = 143 -> {"L4"} [] s = 144 -> {"L5"}
    [] s = 145 -> {"P1"} [] s = 146 -> {"P2"} [] s = 147 -> {"P4"} [] s = 148 -> {"P5"} [] s = 149 -> {"P6"}
    [] OTHER -> {"?"}
\* position of node n in the chain that starts at the head sentinel (0 = the sentinel), -1 if it is not in it
RECURSIVE PosFrom(_, _, _)
PosFrom(cur, n, i) == IF cur = n THEN i ELSE IF next[cur] = NULL THEN -1 ELSE PosFrom(next[cur], n, i + 1)
ObsEq(rec) == /\ Walk(head) = rec.q
              /\ PosFrom(head, tail, 0) = rec.tailpos
Settled(rec) == (\A p \in Proc : pc[p] \in SitePc(rec.sites[p])) /\ ObsEq(rec)
Silent(p) == P7(p) \/ RetNone(p)
Atomic(p) == L1(p) \/ L2(p) \/ L3(p) \/ L4(p) \/ L5(p) \/ P1(p) \/ P2(p) \/ P4(p) \/ P5(p) \/ P6(p)

\* the result of a call that returns on this line
ResetAll ==
  /\ head' = 1 /\ tail' = 1 /\ next' = [n \in Node |-> NULL] /\ data' = [n \in Node |-> 0]
  /\ used' = 1 /\ retired' = {} /\ q' = <<>> /\ pc' = [p \in Proc |-> "idle"]
  /\ r' = [p \in Proc |-> R0] /\ cnt' = [p \in Proc |-> 0] /\ nextval' = 1
\* A call that starts and returns on one line ran without preemption (the finisher empties the queue that way,
\* with every thread idle): the state is re-read from the line in canonical form - sentinel 1, then the values.
AllIdle(rec) == \A p \in Proc : rec.sites[p] = 0
Canon(rec) ==
  LET n == Len(rec.q) IN
  /\ head' = 1 /\ tail' = 1 + rec.tailpos
  /\ next' = [k \in Node |-> IF k <= n THEN k + 1 ELSE NULL]
  /\ data' = [k \in Node |-> IF k >= 2 /\ k <= n + 1 THEN rec.q[k - 1] ELSE 0]
  /\ used' = n + 1 /\ retired' = {} /\ q' = rec.q /\ pc' = [p \in Proc |-> "idle"]
  /\ r' = [p \in Proc |-> R0] /\ UNCHANGED <<cnt, nextval>>
Call(p, rec) ==
  CASE rec.opn = "push" -> PushStartV(p, rec.arg)
    [] rec.opn = "pop" -> PopStartC(p, FALSE, TRUE, 0)
    [] rec.opn = "pop_if" -> PopStartC(p, TRUE, rec.pe = 1, rec.pb)
    [] OTHER -> FALSE
Consume(rec) ==
  CASE rec.k = "reset" -> ResetAll
    [] rec.k \in {"fin", "abort"} -> UNCHANGED vars
    [] rec.k = "start" -> IF "ret" \in DOMAIN rec /\ AllIdle(rec) /\ rec.tailpos >= 0 THEN Canon(rec) ELSE Call(rec.t, rec)
    [] rec.k = "step" -> (Atomic(rec.t) \/ (rec.sites[rec.t] = Rec[l].sites[rec.t] /\ UNCHANGED vars))
    [] OTHER -> FALSE

\* results are checked on the settled state of the line that carries them (registers keep the result until the next call)
ResOk == (Settled(Rec[l]) /\ Rec[l].k = "step" /\ "ret" \in DOMAIN Rec[l] /\ Rec[l].ret.op \in {"pop", "pop_if"}) =>
            LET p == Rec[l].t IN IF Rec[l].ret.some THEN r[p].res = Rec[l].ret.val ELSE r[p].res \in {-1, -3}
SInit == l = 1 /\ Init /\ TLCSet(1, 1) /\ TLCSet(2, <<>>)
\* a call that returns on a line has taken its silent last step (P7 / the empty return) inside that line
SNext == \/ /\ Settled(Rec[l]) /\ ResOk /\ l < Len(Rec) /\ l' = l + 1 /\ Consume(Rec[l + 1])
         \/ /\ ~Settled(Rec[l]) /\ l' = l
            /\ \E p \in Proc : pc[p] \notin SitePc(Rec[l].sites[p]) /\ Silent(p)
SSpec == SInit /\ [][SNext]_<<vars, l>>
Track == /\ (Settled(Rec[l]) /\ ResOk /\ l > TLCGet(1)) => (TLCSet(1, l) /\ TLCSet(2, <<pc, r>>))
SAccepted == (TLCGet(1) = Len(Rec) /\ PrintT(<<"STRICT-ACCEPTED", Len(Rec)>>))
             \/ PrintT(<<"STRICT-REJECTED", TLCGet(1), Len(Rec), Rec[TLCGet(1)].sc, TLCGet(2)>>)
=============================================================================
