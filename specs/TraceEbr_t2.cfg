SPECIFICATION TSpec
CONSTANTS
  P = {1, 2}
  Prog = 0
  TaskProg = 0
  NT = 64
  Cap = 64
  MaxEp = 0
  Expire = 3
  Trials = 16
  Fix = {}
  Mut = {}
  Loop = {}
INVARIANT Report
POSTCONDITION Accepted
CHECK_DEADLOCK FALSE
