---------------------------- MODULE MSQueue ----------------------------
(***************************************************************************)
(* C17: the collector's Michael-Scott queue (src/ebr_impl/sync/queue.rs).  *)
(* One action per atomic access: push (L1 tail load, L2 next load, L3 help *)
(* CAS, L4 link CAS, L5 tail CAS; lines 61-110), try_pop / try_pop_if (P1  *)
(* head load, P2 next load + predicate, P4 head CAS, P5 tail load, P6 tail *)
(* fix-up CAS, P7 defer_destroy; lines 112-200).  q is the abstract FIFO;  *)
(* the linearization points are the link CAS (L4) and the head CAS (P4).   *)
(* Mut: seeded mutations for witness generation.                           *)
(***************************************************************************)
EXTENDS Integers, Sequences, FiniteSets, TLC
CONSTANTS Prod, Cons, PushesPer, PopsPer, MaxNode, Mut
NoFixup == "NoTailFixup" \in Mut
VARIABLES head, tail, next, data, used, retired, q, pc, r, cnt, nextval
vars == <<head, tail, next, data, used, retired, q, pc, r, cnt, nextval>>
Proc == Prod \cup Cons
Node == 1..MaxNode
NULL == 0
\* the predicate of a conditional pop: "even" (pe) or "below the bound pb" (the two forms the conformance harness uses)
R0 == [t |-> NULL, nx |-> NULL, n |-> NULL, h |-> NULL, front |-> -1, cond |-> FALSE, want |-> FALSE, res |-> -2, pe |-> TRUE, pb |-> 0]
Init == /\ head = 1 /\ tail = 1 /\ next = [n \in Node |-> NULL] /\ data = [n \in Node |-> 0]
        /\ used = 1 /\ retired = {} /\ q = <<>> /\ pc = [p \in Proc |-> "idle"]
        /\ r = [p \in Proc |-> R0] /\ cnt = [p \in Proc |-> 0] /\ nextval = 1
Goto(p, l) == pc' = [pc EXCEPT ![p] = l]
PredOf(p, v) == IF r[p].pe THEN v % 2 = 0 ELSE v < r[p].pb
\* ---------------- push ----------------
PushStartV(p, v) ==   \* push of the value v (trace validation binds it)
                /\ p \in Prod /\ pc[p] = "idle" /\ cnt[p] < PushesPer /\ used < MaxNode
                /\ used' = used + 1 /\ data' = [data EXCEPT ![used + 1] = v] /\ nextval' = nextval + 1
                /\ r' = [r EXCEPT ![p] = [R0 EXCEPT !.n = used + 1]] /\ cnt' = [cnt EXCEPT ![p] = @ + 1]
                /\ Goto(p, "L1") /\ UNCHANGED <<head, tail, next, retired, q>>
PushStart(p) == PushStartV(p, nextval)
L1(p) == /\ pc[p] = "L1" /\ r' = [r EXCEPT ![p].t = tail] /\ Goto(p, "L2")
         /\ UNCHANGED <<head, tail, next, data, used, retired, q, cnt, nextval>>
L2(p) == /\ pc[p] = "L2" /\ r' = [r EXCEPT ![p].nx = next[r[p].t]]
         /\ Goto(p, IF next[r[p].t] # NULL THEN "L3" ELSE "L4")
         /\ UNCHANGED <<head, tail, next, data, used, retired, q, cnt, nextval>>
L3(p) == /\ pc[p] = "L3" /\ tail' = (IF tail = r[p].t THEN r[p].nx ELSE tail) /\ Goto(p, "L1")
         /\ UNCHANGED <<head, next, data, used, retired, q, r, cnt, nextval>>
L4(p) == /\ pc[p] = "L4"
         /\ IF next[r[p].t] = NULL
              THEN /\ next' = [next EXCEPT ![r[p].t] = r[p].n] /\ q' = Append(q, data[r[p].n]) /\ Goto(p, "L5")
              ELSE /\ UNCHANGED <<next, q>> /\ Goto(p, "L1")
         /\ UNCHANGED <<head, tail, data, used, retired, r, cnt, nextval>>
L5(p) == /\ pc[p] = "L5" /\ tail' = (IF tail = r[p].t \/ "PushTailStore" \in Mut THEN r[p].n ELSE tail) /\ Goto(p, "idle")
         /\ UNCHANGED <<head, next, data, used, retired, q, r, cnt, nextval>>
\* ---------------- try_pop / try_pop_if ----------------
PopStartC(p, c, pe, pb) ==   \* try_pop (c = FALSE) / try_pop_if with the given predicate
               /\ p \in Cons /\ pc[p] = "idle" /\ cnt[p] < PopsPer
               /\ r' = [r EXCEPT ![p] = [R0 EXCEPT !.cond = c, !.want = c, !.pe = pe, !.pb = pb]]
               /\ cnt' = [cnt EXCEPT ![p] = @ + 1] /\ Goto(p, "P1")
               /\ UNCHANGED <<head, tail, next, data, used, retired, q, nextval>>
PopStart(p) == \E c \in BOOLEAN : PopStartC(p, c, TRUE, 0)
P1(p) == /\ pc[p] = "P1"
         /\ r' = [r EXCEPT ![p].h = head, ![p].front = IF q = <<>> THEN -1 ELSE Head(q)]
         /\ Goto(p, "P2") /\ UNCHANGED <<head, tail, next, data, used, retired, q, cnt, nextval>>
P2(p) == /\ pc[p] = "P2"
         /\ LET nx == next[r[p].h] IN
            /\ r' = [r EXCEPT ![p].nx = nx,
                              ![p].front = IF nx = NULL THEN (IF q = <<>> THEN -1 ELSE Head(q)) ELSE @,
                              ![p].res = IF nx = NULL THEN -1 ELSE IF r[p].cond /\ ~PredOf(p, data[nx]) THEN -3 ELSE -2]
            /\ Goto(p, IF nx = NULL \/ (r[p].cond /\ ~PredOf(p, data[nx])) THEN "ret_none" ELSE "P4")
         /\ UNCHANGED <<head, tail, next, data, used, retired, q, cnt, nextval>>
P4(p) == /\ pc[p] = "P4"
         /\ IF head = r[p].h
              THEN /\ head' = r[p].nx /\ q' = Tail(q) /\ r' = [r EXCEPT ![p].res = data[r[p].nx], ![p].front = Head(q)]
                   /\ Goto(p, IF NoFixup THEN "P7" ELSE "P5")
              ELSE /\ UNCHANGED <<head, q>> /\ Goto(p, "P1")
                   /\ r' = IF "PopIfRetryUnconditional" \in Mut THEN [r EXCEPT ![p].cond = FALSE] ELSE r
         /\ UNCHANGED <<tail, next, data, used, retired, cnt, nextval>>
P5(p) == /\ pc[p] = "P5" /\ r' = [r EXCEPT ![p].t = tail] /\ Goto(p, IF tail = r[p].h THEN "P6" ELSE "P7")
         /\ UNCHANGED <<head, tail, next, data, used, retired, q, cnt, nextval>>
P6(p) == /\ pc[p] = "P6" /\ tail' = (IF tail = r[p].t THEN r[p].nx ELSE tail) /\ Goto(p, "P7")
         /\ UNCHANGED <<head, next, data, used, retired, q, r, cnt, nextval>>
P7(p) == /\ pc[p] = "P7" /\ retired' = retired \cup {r[p].h} /\ Goto(p, "idle")
         /\ UNCHANGED <<head, tail, next, data, used, q, r, cnt, nextval>>
RetNone(p) == /\ pc[p] = "ret_none" /\ Goto(p, "idle")
              /\ UNCHANGED <<head, tail, next, data, used, retired, q, r, cnt, nextval>>
Next == \E p \in Proc : PushStart(p) \/ L1(p) \/ L2(p) \/ L3(p) \/ L4(p) \/ L5(p)
          \/ PopStart(p) \/ P1(p) \/ P2(p) \/ P4(p) \/ P5(p) \/ P6(p) \/ P7(p) \/ RetNone(p)
Spec == Init /\ [][Next]_vars
\* ---------------- properties ----------------
\* successful pop returned exactly the abstract head (checked at the step after the CAS)
PopOK == \A p \in Cons : pc[p] \in {"P5", "P6", "P7"} => r[p].res = r[p].front /\ (r[p].want => PredOf(p, r[p].res))
\* empty result: queue was empty at P2 (nx = NULL)
EmptyOK == \A p \in Cons : (pc[p] = "ret_none" /\ r[p].res = -1) => r[p].front = -1
\* predicate result: the element shown was the head at P1, or the queue was empty at P1
PredOK == \A p \in Cons : (pc[p] = "ret_none" /\ r[p].res = -3) => (r[p].front = -1 \/ r[p].front = data[r[p].nx])
\* reclamation safety: neither head nor tail may point to a retired node; no proc register used later either
NoDangling == head \notin retired /\ tail \notin retired
\* the concrete list from head equals the abstract queue
RECURSIVE Walk(_)
Walk(n) == IF next[n] = NULL THEN <<>> ELSE <<data[next[n]]>> \o Walk(next[n])
Refines == Walk(head) = q
=============================================================================
