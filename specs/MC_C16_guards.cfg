SPECIFICATION Spec
CONSTANTS
  p1 = p1
  p2 = p2
  p3 = p3
  P = {p1, p2}
  Prog <- ProgGuards
  TaskProg <- TaskNone
  NT = 2
  Cap = 2
  MaxEp = 4
  Expire = 3
  Trials = 2
  Fix = {"repin_sole"}
  Mut = {}
  Loop = {}
INVARIANTS TypeOK C16 EpochBound C13 AbsEpochBound AbsFrozenPinned
PROPERTIES Mono RefinesAbs
CHECK_DEADLOCK FALSE
