SPECIFICATION BitsSpec
CONSTANTS
  W = 8
  HW = 4
  MaxCur = 95
  MaxAge = 64
  Aligns = {0}
INVARIANTS C12Window C12Merge
CHECK_DEADLOCK FALSE
