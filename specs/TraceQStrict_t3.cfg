SPECIFICATION SSpec
CONSTANTS
  Prod = {1, 2, 3}
  Cons = {1, 2, 3}
  PushesPer = 1000000
  PopsPer = 1000000
  MaxNode = 40
  Mut = {}
INVARIANT Track
POSTCONDITION SAccepted
CHECK_DEADLOCK FALSE
