------------------------------ MODULE TraceEbr ------------------------------
(***************************************************************************)
(* Executions of the REAL EBR implementation (private collectors driven    *)
(* under the cooperative scheduler with preemption at every shared access  *)
(* of internal.rs), judged by the properties of Ebr.tla.  Observation      *)
(* mode: every recorded line becomes one state of Ebr.tla's variables -    *)
(* epochs, pinned bits and counters are read from memory, the critical-    *)
(* section instances and the active-at-deferral sets are the controller's  *)
(* ghost bookkeeping of the calls it issued.                               *)
(***************************************************************************)
EXTENDS Ebr, Json, IOUtils
Rec == ndJsonDeserialize(IOEnv.TRACE)
VARIABLE l
NTk(r) == Len(r.task)
Obs(r) ==
  /\ gep = r.gep
  /\ lep = [p \in P |-> r.thr[p].lep] /\ lpin = [p \in P |-> r.thr[p].pin]
  /\ gc = [p \in P |-> r.thr[p].gc] /\ hc = [p \in P |-> r.thr[p].hc]
  /\ coll = [p \in P |-> r.thr[p].col] /\ must = [p \in P |-> FALSE]
  /\ bag = [p \in P |-> <<>>] /\ queue = <<>> /\ alive = [p \in P |-> ~r.thr[p].gone]
  /\ pc = [p \in P |-> IF r.thr[p].busy THEN "busy" ELSE "idle"]
  /\ ret = [p \in P |-> <<>>] /\ reg = [p \in P |-> NoReg] /\ ip = [p \in P |-> 1] /\ tctx = [p \in P |-> <<>>]
  /\ ug = [p \in P |-> r.thr[p].ug] /\ inst = [p \in P |-> r.thr[p].inst]
  /\ act = [k \in Task |-> IF k > NTk(r) THEN {} ELSE {<<r.task[k].act[i][1], r.task[k].act[i][2]>> : i \in 1..Len(r.task[k].act)}]
  /\ dep = [k \in Task |-> 0]
  /\ st = [k \in Task |-> IF k > NTk(r) THEN "new" ELSE r.task[k].st]
  /\ ran = [k \in Task |-> IF k > NTk(r) THEN 0 ELSE r.task[k].ran]
ObsP(r) ==
  /\ gep' = r.gep
  /\ lep' = [p \in P |-> r.thr[p].lep] /\ lpin' = [p \in P |-> r.thr[p].pin]
  /\ gc' = [p \in P |-> r.thr[p].gc] /\ hc' = [p \in P |-> r.thr[p].hc]
  /\ coll' = [p \in P |-> r.thr[p].col] /\ must' = [p \in P |-> FALSE]
  /\ bag' = [p \in P |-> <<>>] /\ queue' = <<>> /\ alive' = [p \in P |-> ~r.thr[p].gone]
  /\ pc' = [p \in P |-> IF r.thr[p].busy THEN "busy" ELSE "idle"]
  /\ ret' = [p \in P |-> <<>>] /\ reg' = [p \in P |-> NoReg] /\ ip' = [p \in P |-> 1] /\ tctx' = [p \in P |-> <<>>]
  /\ ug' = [p \in P |-> r.thr[p].ug] /\ inst' = [p \in P |-> r.thr[p].inst]
  /\ act' = [k \in Task |-> IF k > NTk(r) THEN {} ELSE {<<r.task[k].act[i][1], r.task[k].act[i][2]>> : i \in 1..Len(r.task[k].act)}]
  /\ dep' = [k \in Task |-> 0]
  /\ st' = [k \in Task |-> IF k > NTk(r) THEN "new" ELSE r.task[k].st]
  /\ ran' = [k \in Task |-> IF k > NTk(r) THEN 0 ELSE r.task[k].ran]
TInit == l = 1 /\ Obs(Rec[1])
TNext == l < Len(Rec) /\ l' = l + 1 /\ ObsP(Rec[l + 1])
TSpec == TInit /\ [][TNext]_<<vars, l>>

R == Rec[l]
HasPrev == l > 1 /\ Rec[l - 1].sc = R.sc
Q == Rec[l - 1]
\* C14: single steps of the clock
\* (every value stored into the global epoch during the step is logged, in order)
Chain(from, a) == \A i \in 1..Len(a) : a[i] \in {(IF i = 1 THEN from ELSE a[i - 1]), (IF i = 1 THEN from ELSE a[i - 1]) + 1}
ObsMono == HasPrev => /\ Chain(Q.gep, R.adv)
                      /\ R.gep = (IF Len(R.adv) = 0 THEN Q.gep ELSE R.adv[Len(R.adv)])
\* C16 (frame): a step of thread t never changes another participant's announcement or counters
ObsFrame == (HasPrev /\ R.t # 0) => \A p \in P : (p # R.t /\ ~R.thr[p].gone /\ ~Q.thr[p].gone) =>
               /\ R.thr[p].lep = Q.thr[p].lep /\ R.thr[p].pin = Q.thr[p].pin
               /\ R.thr[p].gc = Q.thr[p].gc /\ R.thr[p].hc = Q.thr[p].hc
\* C16: with no call in progress the pinned bit is exactly "some guard is live", and the count is the guards
ObsGuards == \A p \in P : (~R.thr[p].busy /\ ~R.thr[p].gone) =>
               /\ R.thr[p].pin = (R.thr[p].ug > 0)
               /\ R.thr[p].gc = R.thr[p].ug
\* C16: inside reactivate_after the thread is unpinned iff the guard is the sole live one
ObsReactAfter == Len(R.ra) = 3 => ((R.ra[2] = 1) = (R.ra[3] > 1))
\* C16: reactivating a guard that is not the only live one changes nothing: the announcement stays
ObsReactNonSole == (HasPrev /\ R.t # 0 /\ (R.thr[R.t].nonsole \/ Q.thr[R.t].nonsole)) =>
                     /\ R.thr[R.t].lep = Q.thr[R.t].lep /\ R.thr[R.t].pin /\ Q.thr[R.t].pin
\* C15: captured data intact; at the end every deferred function ran exactly once
ObsData == \A k \in 1..NTk(R) : R.task[k].bad = 0
ObsAllRan == R.k = "fin" => \A k \in 1..NTk(R) : (R.task[k].st # "new" => R.task[k].ran = 1)
ObsNoPanic == R.k # "abort"

V(name, ok) == ok \/ PrintT(<<"VIOL", name, R.sc, l>>)
Report ==
  /\ V("C13", C13) /\ V("EpochBound", EpochBound) /\ V("Once", Once) /\ V("TypeOK", TypeOK)
  /\ V("ObsMono", ObsMono) /\ V("ObsFrame", ObsFrame) /\ V("ObsGuards", ObsGuards) /\ V("ObsReactAfter", ObsReactAfter) /\ V("ObsReactNonSole", ObsReactNonSole)
  /\ V("ObsData", ObsData) /\ V("ObsAllRan", ObsAllRan) /\ V("ObsNoPanic", ObsNoPanic)
Accepted == (TLCGet("stats").diameter = Len(Rec) /\ PrintT(<<"ACCEPTED", Len(Rec)>>))
            \/ PrintT(<<"REJECTED", TLCGet("stats").diameter, Len(Rec)>>)
=============================================================================
