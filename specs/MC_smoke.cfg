SPECIFICATION Spec
CONSTANTS
  Thr = {t1, t2}
  NObj = 2
  NCell = 1
  NWCell = 1
  Fld = {1}
  MaxTag = 0
  M = 16
  InitEp = {6}
  MaxEp = 9
  MaxOps = 3
  MaxDepth = 3
  ExpAge = 3
  CasAge = 3
  OpsEnabled = {"load","store","drop","pin","collect"}
  Scen = "chain"
  Fix = {}
  Mut = {}
INVARIANTS TypeOK C01 C01Link C03 Once NoUnderflow EpochBound DepthBound
CHECK_DEADLOCK FALSE
