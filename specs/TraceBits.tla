------------------------------ MODULE TraceBits ------------------------------
(***************************************************************************)
(* Judges rows produced by the REAL implementation (crate-private helpers  *)
(* exported by the cfg(circ_verif) shim, and the public API) against the   *)
(* operators of Bits.tla at the real widths W = 64, HW = 4, and against    *)
(* PtrOrd's reference relations.  One row = one state; a row that          *)
(* disagrees prints <<"VIOL", condition, 0, row>>.                         *)
(***************************************************************************)
EXTENDS Bits, Json, IOUtils
Rec == ndJsonDeserialize(IOEnv.TRACE)
VARIABLE l
TInit == l = 1
TNext == l < Len(Rec) /\ l' = l + 1
TSpec == TInit /\ [][TNext]_l
R == Rec[l]
\* 64-bit word from four 16-bit limbs, least significant first
BVof(x) == [i \in 1..W |-> (x[((i - 1) \div 16) + 1] \div Pow2((i - 1) % 16)) % 2]
Is(f) == R.fn = f
B(b) == b   \* booleans arrive as JSON booleans

\* ---- count word (C12)
RowState ==
  /\ Is("st_decode") => LET w == BVof(R.w) IN
        /\ R.r[1] = St_strong(w) /\ R.r[2] = St_weak(w) /\ (R.r[3] = 1) = St_destructed(w)
        /\ (R.r[4] = 1) = St_weaked(w) /\ R.r[5] = St_epoch(w)
        /\ R.r[1] = Fields(w).strong /\ R.r[2] = Fields(w).weak /\ R.r[5] = Fields(w).e
  /\ Is("st_with_epoch") => BVof(R.r) = St_with_epoch(BVof(R.w), R.a)
        /\ Fields(BVof(R.r)) = [Fields(BVof(R.w)) EXCEPT !.e = R.a % 16]
  /\ Is("st_add_strong") => BVof(R.r) = St_add_strong(BVof(R.w), R.a)
        /\ (Fields(BVof(R.w)).strong + R.a < Pow2(STRONG_WIDTH) => Fields(BVof(R.r)) = [Fields(BVof(R.w)) EXCEPT !.strong = @ + R.a])
  /\ Is("st_sub_strong") => (Fields(BVof(R.w)).strong >= R.a => Fields(BVof(R.r)) = [Fields(BVof(R.w)) EXCEPT !.strong = @ - R.a])
  /\ Is("st_add_weak") => BVof(R.r) = St_add_weak(BVof(R.w), R.a)
        /\ (Fields(BVof(R.w)).weak + R.a < Pow2(WEAK_WIDTH) => Fields(BVof(R.r)) = [Fields(BVof(R.w)) EXCEPT !.weak = @ + R.a])
  /\ Is("st_with_destructed") => Fields(BVof(R.r)) = [Fields(BVof(R.w)) EXCEPT !.d = (R.a = 1)]
  /\ Is("st_with_weaked") => Fields(BVof(R.r)) = [Fields(BVof(R.w)) EXCEPT !.k = (R.a = 1)]
  /\ Is("st_initial") => BVof(R.r) = St_initial(R.a) /\ Fields(BVof(R.r)) = [e |-> 0, d |-> FALSE, k |-> FALSE, weak |-> 1, strong |-> R.a]
  /\ Is("st_units") => BVof(R.w) = BitAt(0) /\ BVof(R.r) = BitAt(STRONG_WIDTH)
\* ---- modular comparison (C12)
RowModular ==
  /\ Is("md_trans") => R.r = Md_trans(R.max, R.a)
  /\ Is("md_inver") => R.r = Md_inver(R.max, R.a)
  /\ Is("md_le") => (R.r = 1) = Md_le(R.max, R.a, R.b)
  /\ Is("md_max3") => R.r = Md_max(R.max, {R.a, R.b, R.c})
  \* the classification as the code computes it, for a stamp of known true age
  /\ Is("md_old") => /\ (R.r = 1) = CascadeOld(R.stamp, R.cur)
                     /\ ((R.r = 1) => R.age >= 3)
                     /\ ((R.age >= 3 /\ R.age <= 13) => R.r = 1)
\* ---- decisions taken by the real dispose_general_node (C12 end to end)
RowDecide == Is("decide") =>
  /\ (R.depth > 0 => (R.imm = 1) = CascadeOld(R.ne, R.cur))
  /\ (R.depth > 0 /\ R.imm = 1) => R.minage >= 3          \* never "old enough" when some stamp is younger than 3
  /\ (R.depth > 0 /\ R.minage >= 3 /\ R.maxage <= 13) => R.imm = 1
\* ---- tagged pointers (C11)
RowTagged ==
  /\ Is("tg_tag") => R.r = Tg_tag(BVof(R.w), R.k)
  /\ Is("tg_high_tag") => R.r = Tg_high_tag(BVof(R.w))
  /\ Is("tg_as_raw") => BVof(R.r) = Tg_as_raw(BVof(R.w), R.k)
  /\ Is("tg_with_tag") => /\ BVof(R.r) = Tg_with_tag(BVof(R.w), BVof(R.g), R.k)
                          /\ Ptr(BVof(R.r), R.k) = [Ptr(BVof(R.w), R.k) EXCEPT !.tag = Field(BVof(R.g), 0, R.k)]
  /\ Is("tg_with_high_tag") => /\ BVof(R.r) = Tg_with_high_tag(BVof(R.w), BVof(R.g))
                               /\ Ptr(BVof(R.r), R.k) = [Ptr(BVof(R.w), R.k) EXCEPT !.ts = Field(BVof(R.g), 0, 4)]
  /\ Is("tg_is_null") => (R.r = 1) = Tg_is_null(BVof(R.w), R.k)
  /\ Is("tg_ptr_eq") => /\ (R.r = 1) = Tg_ptr_eq(BVof(R.w), BVof(R.g))
                        /\ (R.r = 1) = (Ptr(BVof(R.w), R.k).addr = Ptr(BVof(R.g), R.k).addr /\ Ptr(BVof(R.w), R.k).tag = Ptr(BVof(R.g), R.k).tag)
\* public API on real objects: handle kind h, alignment 2^k, tag request g, observed results
RowApi == Is("api") =>
  /\ R.tag = Field(BVof(R.g), 0, R.k)          \* with_tag/tag round trip, truncated to the alignment bits
  /\ R.same_obj = 1                             \* dereference still reaches the object
  /\ R.same_mut = 1                             \* deref_mut / as_mut reach the same address as deref / as_ref
  /\ R.null = 0 /\ R.nullnull = 1               \* non-null stays non-null; a tagged, timestamped null is null
  /\ R.ptr_eq_ts = 1                            \* ptr_eq ignores the timestamp
  /\ R.ptr_eq_tag = (IF R.tag = R.tag0 THEN 1 ELSE 0)
  /\ R.fmt_same = 1                             \* pointer formatting ignores the timestamp
  /\ R.ts = R.ts_expected                       \* the timestamp survives tagging (internal invariant)

V(name, ok) == ok \/ PrintT(<<"VIOL", name, 0, l>>)
Report == /\ V("RowState", RowState) /\ V("RowModular", RowModular) /\ V("RowDecide", RowDecide)
          /\ V("RowTagged", RowTagged) /\ V("RowApi", RowApi)
Accepted == (TLCGet("stats").diameter = Len(Rec) /\ PrintT(<<"ACCEPTED", Len(Rec)>>))
            \/ PrintT(<<"REJECTED", TLCGet("stats").diameter, Len(Rec)>>)
=============================================================================
