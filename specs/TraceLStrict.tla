---------------------------- MODULE TraceLStrict ----------------------------
(***************************************************************************)
(* Step-relation trace validation for the participant registry's list:     *)
(* every recorded line of a real execution of sync/list.rs (shim instance  *)
(* under the cooperative scheduler, a scheduling point before every atomic *)
(* access) must be explained by an ACTION of RegList.tla.                  *)
(* A thread that inserts or deletes entry e is the owner process of e in   *)
(* the model (pc[e]); a thread that traverses is the iterator of its own   *)
(* number.  Sites: 160 before the head load of insert (I1), 161 before its *)
(* CAS (I3; the store of the entry's next between them, I2, has no site),  *)
(* 162 before the marking fetch_or (Del), 163 before the iterator's head   *)
(* load (ItStart), 164 before a next load (ItLoad), 165 before the         *)
(* unlinking CAS (ItUnlink), 166 before the restart load of a stalled      *)
(* traversal.  Silent: I2, ItStep, the end of the chain.  Bound to the     *)
(* line: the chain from the head with its marks, how often every entry was *)
(* finalized; the iterators' registers are inferred by TLC.                *)
(***************************************************************************)
EXTENDS RegList, Json, IOUtils
Rec == ndJsonDeserialize(IOEnv.TRACE)
VARIABLE l
Thr == Iters

RECURSIVE ChainFrom(_)
ChainFrom(e) == IF e = NULL THEN <<>> ELSE <<<<e, IF nxt[e].m THEN 1 ELSE 0>>>> \o ChainFrom(nxt[e].p)
FinCount(rec, e) == Cardinality({i \in 1..Len(rec.fin) : rec.fin[i] = e})
ObsEq(rec) == /\ ChainFrom(head) = rec.list
              /\ \A e \in Ent : fin[e] = FinCount(rec, e)
PcOk(rec, t) ==
  LET c == rec.cur[t]  s == rec.sites[t] IN
  CASE c.n = "insert" -> (s = 160 /\ pc[c.id] = "idle" /\ st[c.id] = "out") \/ (s = 161 /\ pc[c.id] = "I3")
    [] c.n = "delete" -> s = 162 /\ pc[c.id] = "idle" /\ st[c.id] = "in"
    [] c.n = "traverse" -> \/ (s = 163 /\ ipc[t] = "idle")
                           \/ (s = 164 /\ ipc[t] = "loop" /\ ireg[t].curr # NULL)
                           \/ (s = 165 /\ ipc[t] = "unlink")
                           \/ (s = 166 /\ ipc[t] = "end" /\ ireg[t].stalled)
    [] OTHER -> TRUE
\* a call that has returned left its process where the model's action leaves it
DoneOk(rec) ==
  ("ret" \in DOMAIN rec /\ rec.k = "step") =>
     LET t == rec.t IN
     CASE rec.ret.op = "insert" -> TRUE
       [] rec.ret.op = "traverse" -> ipc[t] = "end" /\ ireg[t].stalled = rec.ret.stalled
       [] OTHER -> TRUE
Settled(rec) == (\A t \in Thr : PcOk(rec, t)) /\ ObsEq(rec) /\ DoneOk(rec)
Owner(rec, t) == rec.cur[t].id
Silent(rec, t) ==
  \/ rec.cur[t].n = "insert" /\ I2(Owner(rec, t))
  \/ ItStep(t)
  \/ (ipc[t] = "loop" /\ ireg[t].curr = NULL /\ ItLoad(t))
\* the process of the acting thread
Atomic(rec, t, prev) ==
  LET c == prev.cur[t] IN
  CASE c.n = "insert" -> I1(c.id) \/ I3(c.id)
    [] c.n = "delete" -> Del(c.id)
    [] c.n = "traverse" -> ItStart(t) \/ ItLoad(t) \/ ItUnlink(t)
    [] OTHER -> FALSE
ResetAll ==
  /\ head' = NULL /\ nxt' = [e \in Ent |-> [p |-> NULL, m |-> FALSE]]
  /\ st' = [e \in Ent |-> "out"] /\ fin' = [e \in Ent |-> 0]
  /\ ipc' = [i \in Iters |-> "idle"]
  /\ ireg' = [i \in Iters |-> [pred |-> HEAD, curr |-> NULL, succ |-> [p |-> NULL, m |-> FALSE], start |-> {}, vis |-> {}, stalled |-> FALSE, gone |-> {}]]
  /\ pc' = [e \in Ent |-> "idle"] /\ reg' = [e \in Ent |-> NULL]
\* a call that starts and returns on one line ran without preemption (scenario set-up, finisher): the state is
\* re-read from the line
AllIdle(rec) == \A t \in Thr : rec.sites[t] = 0
InList(rec) == {rec.list[i][1] : i \in 1..Len(rec.list)}
NextIn(rec, e) == LET i == CHOOSE j \in 1..Len(rec.list) : rec.list[j][1] = e IN IF i = Len(rec.list) THEN NULL ELSE rec.list[i + 1][1]
MarkIn(rec, e) == LET i == CHOOSE j \in 1..Len(rec.list) : rec.list[j][1] = e IN rec.list[i][2] = 1
Canon(rec) ==
  /\ head' = IF rec.list = <<>> THEN NULL ELSE rec.list[1][1]
  /\ nxt' = [e \in Ent |-> IF e \in InList(rec) THEN [p |-> NextIn(rec, e), m |-> MarkIn(rec, e)] ELSE [p |-> NULL, m |-> st[e] # "out"]]
  /\ st' = [e \in Ent |-> IF e \in InList(rec) THEN (IF MarkIn(rec, e) THEN "del" ELSE "in")
                          ELSE IF FinCount(rec, e) > 0 \/ st[e] = "del" THEN "del" ELSE "out"]
  /\ fin' = [e \in Ent |-> FinCount(rec, e)]
  /\ ipc' = [i \in Iters |-> "idle"]
  /\ ireg' = [i \in Iters |-> [pred |-> HEAD, curr |-> NULL, succ |-> [p |-> NULL, m |-> FALSE], start |-> {}, vis |-> {}, stalled |-> FALSE, gone |-> {}]]
  /\ pc' = [e \in Ent |-> "idle"] /\ reg' = [e \in Ent |-> NULL]
\* a new traversal starts with a fresh iterator
FreshIter(t) ==
  /\ ipc' = [ipc EXCEPT ![t] = "idle"]
  /\ ireg' = [ireg EXCEPT ![t] = [pred |-> HEAD, curr |-> NULL, succ |-> [p |-> NULL, m |-> FALSE], start |-> {}, vis |-> {}, stalled |-> FALSE, gone |-> {}]]
  /\ UNCHANGED <<head, nxt, st, fin, pc, reg>>
Consume(rec, prev) ==
  CASE rec.k = "reset" -> ResetAll
    [] rec.k \in {"fin", "abort"} -> UNCHANGED vars
    [] rec.k = "start" -> IF "ret" \in DOMAIN rec /\ AllIdle(rec) THEN Canon(rec)
                          ELSE IF rec.opn = "traverse" THEN FreshIter(rec.t) ELSE UNCHANGED vars
    \* (a stutter is only admitted where the thread stays at its site; otherwise an unobservable register update
    \*  and its omission both survive and the alternatives double with every such step)
    [] rec.k = "step" -> (Atomic(rec, rec.t, prev) \/ ((rec.sites[rec.t] = prev.sites[rec.t] \/ prev.sites[rec.t] = 166) /\ UNCHANGED vars))   \* 166: the restart load of a stalled traversal, which the model folds into the failed unlink
    [] OTHER -> FALSE

SInit == l = 1 /\ Init /\ TLCSet(1, 1) /\ TLCSet(2, <<>>)
SNext == \/ /\ Settled(Rec[l]) /\ l < Len(Rec) /\ l' = l + 1 /\ Consume(Rec[l + 1], Rec[l])
         \/ /\ ~Settled(Rec[l]) /\ l' = l
            /\ \E t \in Thr : Silent(Rec[l], t)
SSpec == SInit /\ [][SNext]_<<vars, l>>
Track == (Settled(Rec[l]) /\ l > TLCGet(1)) => (TLCSet(1, l) /\ TLCSet(2, <<pc, ipc, ireg>>))
SAccepted == (TLCGet(1) = Len(Rec) /\ PrintT(<<"STRICT-ACCEPTED", Len(Rec)>>))
             \/ PrintT(<<"STRICT-REJECTED", TLCGet(1), Len(Rec), Rec[TLCGet(1)].sc, TLCGet(2)>>)
=============================================================================
